#!/venv/bin/python
"""seeded.py keep <ID> <X> [--checks C..]   copy a confirmed seeded change from /tmp/seed/<ID>/out into /verif/seeded/<ID>-<X>/
   seeded.py run [name ...]                  run the recorded checks against every kept change (scratch worktree, never /repo)
                                             and record CAUGHT / MISSED in its meta.json
   seeded.py table                           print the markdown table for DESIGN.md"""
import json, os, shutil, subprocess, sys

ROOT = os.path.dirname(os.path.dirname(os.path.abspath(__file__)))
SD = os.path.join(ROOT, "seeded")


def keep(pid, x, checks):
    src = f"/tmp/seed/{pid}/out"
    dst = os.path.join(SD, f"{pid}-{x}")
    os.makedirs(dst, exist_ok=True)
    shutil.copy(os.path.join(src, f"{x}.patch.diff"), os.path.join(dst, "patch.diff"))
    shutil.copy(os.path.join(src, f"demo_{x}.py"), os.path.join(dst, "demo.py"))
    agent = json.load(open(os.path.join(src, "meta.json")))["changes"][x]
    conf = None
    for pref in ("confirm2_", "confirm_"):
        f = f"/tmp/seedlogs/{pref}{pid}_{x}.json"
        if os.path.exists(f):
            try:
                conf = json.loads(open(f).read().strip().splitlines()[-1])
                break
            except Exception:
                pass
    meta = {
        "property": pid,
        "change": x,
        "breaks": agent.get("summary"),
        "files": agent.get("files"),
        "needs_to_manifest": agent.get("needs"),
        "author": "independent sub-agent given only the property text and a scratch worktree",
        "confirmed_by_me": {
            "how": "tools/confirm_seed.py in a scratch worktree of /repo HEAD (removed afterwards): demo.py without the patch, with the patch, then the pinned test suite with the patch",
            "demo_without_patch_exit": None if conf is None else conf.get("demo_without"),
            "demo_with_patch_exit": None if conf is None else conf.get("demo_with"),
            "suite_with_patch": None if conf is None else conf.get("suite_tail"),
            "suite_failed_tests": None if conf is None else conf.get("suite_failed"),
        },
        "checks": checks,
        "detected": {},
    }
    old = os.path.join(dst, "meta.json")
    if os.path.exists(old):
        meta["detected"] = json.load(open(old)).get("detected", {})
    json.dump(meta, open(old, "w"), indent=1)
    print("kept", dst)


def run(names):
    head = subprocess.run(["git", "-C", ROOT, "rev-parse", "--short", "HEAD"], capture_output=True, text=True).stdout.strip()
    for n in sorted(os.listdir(SD)):
        d = os.path.join(SD, n)
        if not os.path.isdir(d) or (names and n not in names):
            continue
        mp = os.path.join(d, "meta.json")
        meta = json.load(open(mp))
        for c in meta["checks"]:
            r = subprocess.run([os.path.join(ROOT, "tools", "try_patch.py"), os.path.join(d, "patch.diff"), c], capture_output=True, text=True)
            line = (r.stdout.strip().splitlines() or ["?"])[0]
            verdict = "CAUGHT" if " CAUGHT" in line else ("MISSED" if " MISSED" in line else "ERROR")
            sig = line.split("signature:")[1].split("|")[0].strip() if "signature:" in line else None
            meta["detected"][c] = {"verdict": verdict, "signature": sig, "tier": os.environ.get("TIER", "quick"), "seed": os.environ.get("VERIF_SEED", "1"), "verif_commit": head}
            print(n, c, verdict, sig, flush=True)
        json.dump(meta, open(mp, "w"), indent=1)


def table():
    print("| seeded change | what it needs to manifest | check | result |")
    print("|---|---|---|---|")
    for n in sorted(os.listdir(SD)):
        mp = os.path.join(SD, n, "meta.json")
        if not os.path.exists(mp):
            continue
        m = json.load(open(mp))
        for c, r in m["detected"].items():
            print(f"| {n} ({', '.join(os.path.basename(f) for f in m['files'] or [])}) | {(m['needs_to_manifest'] or '')[:160]} | {c} | {r['verdict']}{' (' + r['signature'] + ')' if r['signature'] else ''} |")


if __name__ == "__main__":
    cmd = sys.argv[1]
    if cmd == "keep":
        checks = sys.argv[sys.argv.index("--checks") + 1 :] if "--checks" in sys.argv else [sys.argv[2]]
        keep(sys.argv[2], sys.argv[3], checks)
    elif cmd == "run":
        run(sys.argv[2:])
    elif cmd == "table":
        table()
