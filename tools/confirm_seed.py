#!/venv/bin/python
"""confirm_seed.py <dir with X.patch.diff + demo_X.py> <X> [--suite]
Confirms a seeded change in a scratch worktree of /repo's HEAD (outside /repo and /verif):
demo exits 0 without the patch, non-zero with it, and (with --suite) the pinned test suite still passes
with the patch.  Prints one JSON line; removes the worktree."""
import json, os, shutil, subprocess, sys, tempfile

d, x = os.path.abspath(sys.argv[1]), sys.argv[2]
suite = "--suite" in sys.argv
patch, demo = os.path.join(d, f"{x}.patch.diff"), os.path.join(d, f"demo_{x}.py")
if not os.path.exists(patch):
    patch = os.path.join(d, "patch.diff")
    demo = os.path.join(d, "demo.py")
os.makedirs("/tmp/mut", exist_ok=True)
t = tempfile.mkdtemp(prefix="cf", dir="/tmp/mut")
wt = os.path.join(t, "wt")
subprocess.run(["git", "-C", "/repo", "worktree", "add", "--detach", "-q", wt, "HEAD"], check=True)
res = {"dir": d, "change": x}
try:
    env = dict(os.environ, PYTHONPATH=wt, PYTHONHASHSEED="0")
    r0 = subprocess.run(["/venv/bin/python", demo], cwd=wt, env=env, capture_output=True, text=True, timeout=1800)
    res["demo_without"] = r0.returncode
    a = subprocess.run(["git", "-C", wt, "apply", patch], capture_output=True, text=True)
    res["applies"] = a.returncode == 0
    if a.returncode == 0:
        r1 = subprocess.run(["/venv/bin/python", demo], cwd=wt, env=env, capture_output=True, text=True, timeout=1800)
        res["demo_with"] = r1.returncode
        res["demo_with_tail"] = (r1.stdout + r1.stderr)[-300:]
        if suite:
            s = subprocess.run(["/venv/bin/python", "-m", "pytest", "-q", "-rf", "-p", "no:cacheprovider", "--timeout=900", "--continue-on-collection-errors"], cwd=wt, env=env, capture_output=True, text=True, timeout=7200)
            res["suite_rc"] = s.returncode
            res["suite_tail"] = s.stdout.strip().splitlines()[-1] if s.stdout.strip() else ""
            res["suite_failed"] = [l for l in s.stdout.splitlines() if l.startswith("FAILED")][:10]
    else:
        res["apply_err"] = a.stderr[:300]
finally:
    subprocess.run(["git", "-C", "/repo", "worktree", "remove", "--force", wt])
    shutil.rmtree(t, ignore_errors=True)
print(json.dumps(res))
