"""Validates evidence/*.json against the evidence schema (run with python3-vt)."""
import glob
import json
import os
import sys

import jsonschema

ROOT = os.path.dirname(os.path.dirname(os.path.abspath(__file__)))
sch = json.load(open("/root/.vp/EVIDENCE.schema.json"))
bad = 0
registered = {c["property_id"] for c in json.load(open(os.path.join(ROOT, "MANIFEST.json")))["checks"]}
for pid in sorted(registered):
    if not os.path.exists(os.path.join(ROOT, "evidence", pid + ".json")):
        print(pid, "MISSING evidence file")
        bad += 1
for f in sorted(glob.glob(os.path.join(ROOT, "evidence", "*.json"))):
    if os.path.basename(f)[:-5] not in registered:
        print(os.path.basename(f), "not registered in MANIFEST.json (ignored)")
        continue
    e = json.load(open(f))
    errs = list(jsonschema.Draft202012Validator(sch).iter_errors(e))
    c = e["coverage"]
    print(os.path.basename(f), e["tier"], e["seed"], c["evaluations"], c["distinct_nontrivial"], e.get("violations"), "INVALID " + "; ".join(x.message[:80] for x in errs) if errs else "ok")
    bad += bool(errs) or bool(e.get("violations"))
sys.exit(1 if bad else 0)
