#!/venv/bin/python
"""try_mutant.py <repo-relative file> <old> <new> <ID> [<ID>...]
Applies a textual mutation to /repo, runs the quick tier of the given checks, reverts.
Prints per check: CAUGHT / MISSED / ERROR."""
import subprocess, sys, os
f, old, new, ids = sys.argv[1], sys.argv[2], sys.argv[3], sys.argv[4:]
p = os.path.join("/repo", f)
s = open(p).read()
if s.count(old) != 1:
    print(f"pattern occurs {s.count(old)} times"); sys.exit(3)
assert subprocess.run(["git", "-C", "/repo", "status", "--porcelain"], capture_output=True, text=True).stdout.strip() == "", "repo dirty"
open(p, "w").write(s.replace(old, new))
try:
    for i in ids:
        r = subprocess.run(["/venv/bin/python", "/verif/run.py", i, "--tier", "quick"], capture_output=True, text=True, timeout=1500, env=dict(os.environ, VERIF_SEED=os.environ.get("VERIF_SEED", "1")))
        tail = [l for l in r.stdout.splitlines() if l.startswith(("VIOLATION", "  signature", "  message", "HARNESS"))]
        print(i, {0: "MISSED", 1: "CAUGHT", 2: "ERROR"}.get(r.returncode, r.returncode), " | ".join(t[:300] for t in tail))
        if r.returncode == 2: print(r.stderr[-1500:])
finally:
    subprocess.run(["git", "-C", "/repo", "checkout", "--", "."])
