#!/bin/bash
# sweep.sh [seeds...]  - quick tier of every check module at several seeds (default 1 2 3 4);
# logs under out/sweep/, one summary line per run.  Anything with rc != 0 needs triage.
cd "$(dirname "$0")/.."
mkdir -p out/sweep
seeds=${@:-1 2 3 4}
for seed in $seeds; do
  for f in checks/c*.py; do
    p=$(basename $f .py | tr a-z A-Z)
    s=$(date +%s)
    VERIF_SEED=$seed /venv/bin/python run.py $p --tier quick > out/sweep/$p.$seed.log 2>&1
    rc=$?
    echo "$p seed=$seed rc=$rc t=$(( $(date +%s)-s ))s viol=$(grep -c '^VIOLATION' out/sweep/$p.$seed.log)" | tee -a out/sweep/summary.txt
  done
done
