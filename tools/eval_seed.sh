#!/bin/bash
# eval_seed.sh <ID> [check ids...]  - confirm demo (without/with) and run the property's check against A and B patches
id=$1; shift; checks=${@:-$id}
for x in A B; do
  echo "== $id $x confirm: $(/verif/tools/confirm_seed.py /tmp/seed/$id/out $x)"
  echo "== $id $x check: $(/verif/tools/try_patch.py /tmp/seed/$id/out/$x.patch.diff $checks 2>&1 | cut -c1-600)"
done
