#!/bin/bash
# confirm_queue.sh <ID>... : full confirmation (demo both ways + pinned suite with the patch) of A and B, 6 at a time
mkdir -p /tmp/seedlogs
for id in "$@"; do for x in A B; do echo "$id $x"; done; done | xargs -P 6 -L 1 bash -c '/verif/tools/confirm_seed.py /tmp/seed/$0/out $1 --suite > /tmp/seedlogs/confirm_$0_$1.json 2>&1'
