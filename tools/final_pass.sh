#!/bin/bash
# final_pass.sh - what the acceptance run does: setup_cmd, then every registered quick_cmd at VERIF_SEED=1 with its
# evidence file removed first; then validates the rewritten evidence.  Exit 0 only if everything was quiet.
cd "$(dirname "$0")/.."
export CARGO_NET_OFFLINE=true GOPROXY=off PIP_NO_INDEX=1 VERIF_SEED=${VERIF_SEED:-1} VERIF_TIER=quick
mkdir -p out/final
bash -c "$(/venv/bin/python -c "import json;print(json.load(open('MANIFEST.json'))['setup_cmd'])")" || { echo SETUP-FAILED; exit 2; }
bad=0
/venv/bin/python - <<'P' > out/final/cmds.txt
import json
for c in json.load(open('MANIFEST.json'))['checks']:
    print(c['property_id'], c['evidence_file'], c['quick_cmd'], sep='\t')
P
while IFS=$'\t' read -r pid ev cmd; do
  rm -f "$ev"
  s=$(date +%s)
  bash -c "$cmd" > out/final/$pid.log 2>&1
  rc=$?
  v=$(grep -c '^VIOLATION' out/final/$pid.log)
  [ -f "$ev" ] && e=ok || e=MISSING-EVIDENCE
  echo "$pid rc=$rc viol=$v evidence=$e t=$(( $(date +%s)-s ))s"
  if [ $rc -ne 0 ] || [ $v -ne 0 ] || [ $e != ok ]; then bad=1; fi
done < out/final/cmds.txt
python3-vt tools/validate_evidence.py > out/final/evidence.txt 2>&1 || { bad=1; grep -v " ok$" out/final/evidence.txt; }
exit $bad
