#!/venv/bin/python
"""try_patch.py <patch.diff> <ID> [<ID>...]   [env: VERIF_SEED, TIER=quick|thorough]

Runs checks against a seeded change WITHOUT touching /repo: makes a scratch git worktree of
/repo's HEAD under /tmp/mut/, applies the patch there, runs each check with PYTHONPATH pointing
at the worktree (the library is importable from a .pth entry, PYTHONPATH wins) and
VERIF_OUT_DIR pointing into the scratch directory, then removes the worktree.
Prints per check: CAUGHT / MISSED / ERROR and the signature line."""
import os, subprocess, sys, tempfile, shutil

patch, ids = os.path.abspath(sys.argv[1]), sys.argv[2:]
tier = os.environ.get("TIER", "quick")
os.makedirs("/tmp/mut", exist_ok=True)
d = tempfile.mkdtemp(prefix="wt", dir="/tmp/mut")
wt = os.path.join(d, "wt")
subprocess.run(["git", "-C", "/repo", "worktree", "add", "--detach", "-q", wt, "HEAD"], check=True)
rc_all = 0
try:
    r = subprocess.run(["git", "-C", wt, "apply", patch], capture_output=True, text=True)
    if r.returncode != 0:
        print("PATCH-DOES-NOT-APPLY", r.stderr[:500]); sys.exit(3)
    env = dict(os.environ, PYTHONPATH=wt, VERIF_OUT_DIR=d, VERIF_SEED=os.environ.get("VERIF_SEED", "1"))
    chk = subprocess.run(["/venv/bin/python", "-c", "import unified_planning as u;print(u.__file__)"], env=env, capture_output=True, text=True).stdout
    assert chk.startswith(wt), chk
    for i in ids:
        r = subprocess.run(["/venv/bin/python", "/verif/run.py", i, "--tier", tier], capture_output=True, text=True, timeout=7200, env=env)
        tail = [l for l in r.stdout.splitlines() if l.startswith(("VIOLATION", "  signature", "  message", "HARNESS"))]
        print(i, {0: "MISSED", 1: "CAUGHT", 2: "ERROR"}.get(r.returncode, r.returncode), " | ".join(t[:400] for t in tail), flush=True)
        if r.returncode == 2:
            print(r.stderr[-1500:])
finally:
    keep = os.environ.get("KEEP")
    if keep and os.path.isdir(os.path.join(d, "out", "replays")):
        shutil.copytree(os.path.join(d, "out", "replays"), keep, dirs_exist_ok=True)
    subprocess.run(["git", "-C", "/repo", "worktree", "remove", "--force", wt])
    shutil.rmtree(d, ignore_errors=True)
