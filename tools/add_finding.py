#!/venv/bin/python
"""add_finding.py <out/replays/...json> "<what fails>"   -> appends an OPEN known finding"""
import json, sys, os
ROOT = os.path.dirname(os.path.dirname(os.path.abspath(__file__)))
rep = json.load(open(sys.argv[1]))
kf = os.path.join(ROOT, "known_findings.json")
d = json.load(open(kf))
entry = {"property": rep["property"], "signature": rep["signature"], "status": "open", "what": sys.argv[2], "oracle_message": rep["oracle_message"][:600], "case": rep["case"]}
d["findings"] = [f for f in d["findings"] if not (f["property"] == entry["property"] and f["signature"] == entry["signature"])] + [entry]
json.dump(d, open(kf, "w"), indent=1)
print("added", entry["property"], entry["signature"])
