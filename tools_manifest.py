#!/venv/bin/python
"""Regenerates MANIFEST.json from checks/*.py (each check module carries its own
manifest text) so the manifest is always valid and in sync with what exists."""
import importlib, json, os, sys

ROOT = os.path.dirname(os.path.abspath(__file__))
sys.path.insert(0, ROOT)

NOT_APPLICABLE = {}  # id -> reason (filled for properties without a check)

def main():
    props = [json.loads(l) for l in open(os.path.join(ROOT, "properties.jsonl"))]
    checks = []
    na = []
    for p in props:
        pid = p["id"]
        path = os.path.join(ROOT, "checks", pid.lower() + ".py")
        if not os.path.exists(path):
            na.append({"property_id": pid, "reason": NOT_APPLICABLE.get(pid, "not claimed: check designed in DESIGN.md section 4 but not built (section 12.1); the technique applies, nothing is asserted for this property")})
            continue
        mod = importlib.import_module("checks." + pid.lower())
        if not getattr(mod, "REGISTER", True):
            na.append({"property_id": pid, "reason": "not claimed: a check module exists but is not quiet yet on the unchanged tree (DESIGN.md section 12.1); the technique applies, nothing is asserted for this property"})
            continue
        checks.append({
            "property_id": pid,
            "quick_cmd": f"/venv/bin/python run.py {pid} --tier quick",
            "thorough_cmd": f"/venv/bin/python run.py {pid} --tier thorough",
            "evidence_file": f"evidence/{pid}.json",
            "replay_cmd_template": f"/venv/bin/python run.py {pid} --replay {{path}}",
            "engine": "hypothesis+reference-models",
            "level_claimed": {
                "category": "exploration",
                "text": getattr(mod, "LEVEL_TEXT", "Generated-input search (Hypothesis, seeded, sharded over processes) against an explicit oracle; bounded sizes and depths; search, not proof."),
                "design_ref": f"DESIGN.md section 4, {pid}",
            },
            "level_note": getattr(mod, "LEVEL_NOTE", "Trusted base: harness reference models (refsim/reftt/refexpr), spec->UP builder, UP read-only accessors, CPython, Hypothesis."),
            "technique": getattr(mod, "TECHNIQUE", "property-based testing against a reference model"),
        })
    man = {
        "version": 1,
        "setup_cmd": "/venv/bin/python -c \"import hypothesis\" 2>/dev/null || /venv/bin/pip install --no-index --find-links /opt/veriftools/wheels hypothesis",
        "hooks": {
            "guard": "UP_VERIF_HOOKS",
            "enable": "none - no source hooks are used; checks import /repo's working tree (editable install in /venv)",
            "baseline_off_cmd": "cd /repo && /venv/bin/python -m pytest -ra -q -p no:cacheprovider --timeout=900 --continue-on-collection-errors",
            "source_commits": [],
            "add_only": True,
        },
        "engines": [
            {"name": "refsim", "path": "harness/refsim.py", "kind_free_text": "reference expression evaluator and sequential semantics (independent of UP's walkers, simulator and state classes)", "serves_properties": ["C01","C02","C03","C04","C06","C07","C18","C19","C21","C27","C28","C29","C30","C31","C35"]},
            {"name": "reftt", "path": "harness/reftt.py", "kind_free_text": "reference temporal (time-triggered) semantics", "serves_properties": ["C05","C19","C26","C28"]},
            {"name": "refbfs", "path": "harness/refbfs.py", "kind_free_text": "exact breadth-first planner over refsim, registered as a unified_planning engine so that meta-engines can wrap it", "serves_properties": ["C30","C31"]},
            {"name": "explore", "path": "harness/explore.py", "kind_free_text": "bounded exhaustive plan enumeration and guided search over refsim; PDDL3 trajectory semantics (harness/traj.py)", "serves_properties": ["C06","C07","C18","C27","C28","C30"]},
            {"name": "gen", "path": "harness/gen.py", "kind_free_text": "Hypothesis grammar of problem specs with per-property profiles (harness/comp.py: per-compiler profiles, variants and weights)", "serves_properties": ["C01","C02","C03","C04","C05","C06","C07","C08","C09","C10","C11","C12","C13","C14","C18","C19","C20","C21","C22","C26","C27","C28","C29","C30","C31","C35","C38"]},
            {"name": "digest", "path": "checks/c20.py", "kind_free_text": "structural digests of problems / plans / results, independent of UP's __eq__", "serves_properties": ["C20","C22"]},
            {"name": "ma-reference", "path": "checks/c37.py", "kind_free_text": "multi-agent reference semantics (per-agent fluent resolution, Dot) with exhaustive state enumeration", "serves_properties": ["C37"]},
        ],
        "checks": checks,
        "not_applicable": na,
        "notes": "All checks: run.py <ID> --tier quick|thorough; VERIF_SEED selects the Hypothesis seed; exit 2 = harness error.",
    }
    with open(os.path.join(ROOT, "MANIFEST.json"), "w") as f:
        json.dump(man, f, indent=1)
    import jsonschema
    jsonschema.validate(man, json.load(open("/root/.vp/MANIFEST.schema.json")))
    print(f"MANIFEST.json: {len(checks)} checks, {len(na)} not_applicable")

if __name__ == "__main__":
    main()
