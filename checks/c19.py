"""C19 — ANML write/read round trip preserves problem semantics."""

from __future__ import annotations

from fractions import Fraction

from hypothesis import strategies as st

from harness import gen
from harness.bisim import bisimulate
from harness.build import build
from harness.core import Abstain, Violation
from harness.reftt import RefTT
from harness.refsim import const_value

PROPERTY = "C19"
TECHNIQUE = "property-based round trip (ANMLWriter -> ANMLReader) judged by bisimulation with the reference semantics (instantaneous part) and structural + reference-verdict comparison (temporal part)"
RULE = (
    "Typed classical, numeric (bounded / unbounded int and real fluents) and temporal problems (durative actions with start / "
    "end / interval conditions and effects, fixed and interval durations with open ends) with ANML-safe identifiers; the text "
    "of ANMLWriter.get_problem() is parsed by ANMLReader in a fresh environment.  Instantaneous problems: bisimulation by name "
    "to depth 2 (objects, initial state, applicability / successors, goals).  Temporal problems: equal printed form of every "
    "durative action (duration bounds and openness, timed conditions and effects), timed effects / goals and goals, and equal "
    "reference-temporal verdicts on generated plans.  Non-trivial = problem with a numeric bound, quantifier, conditional / "
    "forall effect or durative action, and >= 2 reachable states (instantaneous) or >= 1 plan judged (temporal); distinct by "
    "hash of the spec."
)
SHARDS = {"quick": 16, "thorough": 16}
SEQ = gen.Profile(ifuns=False, undefined=False, invariants=False, nested_fluent_args=False, max_objects=3, max_fluents=4, decimal_only=True, fluent_kinds=["bool", "bool", "int", "real", "real"], rational_divisors=True)
TEMP = gen.Profile(
    ifuns=False, bounded=False, invariants=False, undefined=False, max_fluents=4, max_objects=3, max_arity=1, nested_fluent_args=False,
    division=False, decimal_only=True, temporal_delays=True, timed_items=True, dur_fluents_grow=False,
)


@st.composite
def cases(draw):
    if draw(st.integers(0, 2)) == 0:
        g = gen.TGen(draw, TEMP)
        p = g.temporal_problem()
        plans = [[{"a": g.i(0, 10), "args": g.i(0, 20), "start": g.pick([0, "1/2", 1, 2, 3]), "dmode": g.i(0, 6), "dgrid": g.pick(["1/2", 1, 2, 3])} for _ in range(g.i(1, 3))] for _ in range(2)]
        return {"problem": p, "temporal": True, "plans": plans}
    return {"problem": gen.Gen(draw, SEQ).problem(), "temporal": False}


def quantifier_in_effect_condition(spec):
    def has_q(e):
        return isinstance(e, list) and e and (e[0] in ("exists", "forall") or any(has_q(x) for x in e[1:]))

    for a in spec["actions"]:
        for e in a.get("eff", []) + a.get("effs", []):
            if e.get("cond") is not None and has_q(e["cond"]):
                return True
    for e in spec.get("timed_effects", []):
        if e.get("cond") is not None and has_q(e["cond"]):
            return True
    return False


def odd_numeric_bounds(spec):
    for f in spec["fluents"]:
        t = f["type"]
        if t != "bool" and t[0] in ("int", "real"):
            lo, hi = t[1], t[2]
            if (lo is None) != (hi is None):
                if t[0] == "real" or (lo is not None and int(Fraction(str(lo))) < 0) or (hi is not None and int(Fraction(str(hi))) < 0):
                    return True
            for x in (lo, hi):
                if x is not None and (Fraction(str(x)) < 0 or Fraction(str(x)).denominator != 1):
                    return True
    return False


def canon(e):
    """printed form modulo simplification and the order of commutative operands (the reader re-associates)"""
    e = e.simplify() if hasattr(e, "simplify") else e

    import re as _re

    base = lambda name: _re.sub(r"_\d+$", "", name)  # the writer renames clashing parameters / variables p0 -> p0_0

    def rec(n):
        if n.is_parameter_exp():
            return "P:" + base(n.parameter().name)
        if n.is_variable_exp():
            return "V:" + base(n.variable().name)
        if not n.args:
            return str(n)
        parts = [rec(a) for a in n.args]
        if n.is_plus() or n.is_times() or n.is_and() or n.is_or() or n.is_equals() or n.is_iff():
            parts = sorted(parts)
        head = n.node_type.name
        if n.is_exists() or n.is_forall():
            head += "[" + ",".join(f"{v.type} {base(v.name)}" for v in n.variables()) + "]"
        if n.is_fluent_exp():
            head = n.fluent().name
        return head + "(" + ", ".join(parts) + ")"

    return rec(e)


def effstr(e):
    """printed form of an effect with simplified value / condition (the reader simplifies constants)"""
    return f"{e.kind.name} {canon(e.fluent)} {canon(e.value)} if {canon(e.condition)} forall {[str(v.type) + " " + __import__("re").sub(r"_\d+$", "", v.name) for v in e.forall]}"


def check(ctx, case):
    from unified_planning.environment import Environment
    from unified_planning.io import ANMLReader, ANMLWriter
    from unified_planning.model import DurativeAction

    spec = case["problem"]
    b = build(spec)
    problem = b.problem
    try:
        text = ANMLWriter(problem).get_problem()
    except Exception as e:
        raise Violation(f"writer-exception:{type(e).__name__}", f"{e!r}", case)
    try:
        q = ANMLReader(Environment()).parse_problem_string(text)
    except Exception as e:
        if type(e).__name__ == "UPConflictingEffectsException":
            effs = [ef for a in problem.actions for ef in (a.effects if not isinstance(a, DurativeAction) else [x for l in a.effects.values() for x in l])]
            if any(ef.is_conditional() and ef.condition.simplify().is_true() for ef in effs):
                # a conditional effect with a tautological condition is written unconditionally and then conflicts
                # statically with another effect: outside the expressible fragment (same abstention as C18)
                raise Abstain("tautological-effect-condition")
        tag = ""
        msg = str(e)
        import re as _re

        mm = _re.search(r"line:(\d+)", msg)
        lines = text.splitlines()
        bad = lines[int(mm.group(1)) - 1] if mm and 0 < int(mm.group(1)) <= len(lines) else ""
        if "Expected {Forward" in msg and "when" in text:
            tag = ":compound-condition-in-when"
        elif _re.match(r"\s*(constant|fluent)\s+(integer|float)\s*[\[\(]", bad) and odd_numeric_bounds(spec):
            tag = ":negative-fractional-or-half-open-numeric-bounds"
        elif ("forall(" in bad or "exists(" in bad) and ("(forall(" in bad or "(exists(" in bad or "when" in bad):
            # a quantified expression inside parentheses (operand of another operator, or a when-condition)
            tag = ":quantifier-inside-expression"
        elif " == " in bad and '"iff"' in __import__("json").dumps(spec):
            # an equivalence between compound Boolean operands, printed with '=='
            tag = ":iff-printed-as-equality"
        sig = f"reader-rejects-written-text{tag}" if tag else f"reader-rejects-written-text:{type(e).__name__}"
        raise Violation(sig, f"{str(e)[:200]}\n{text}", case)
    temporal = any(isinstance(a, DurativeAction) for a in problem.actions) or problem.timed_effects or problem.timed_goals
    ident = lambda items: {i.name: i.name for i in items}
    for what, mine, has in (("fluent", problem.fluents, q.has_fluent), ("object", problem.all_objects, q.has_object), ("action", problem.actions, q.has_action)):
        miss = [i.name for i in mine if not has(i.name)]
        if miss:
            raise Violation(f"{what}-missing-after-round-trip", f"{miss}\n{text}", case)
    if not temporal:
        pairs, nstates = bisimulate(ctx, problem, q, ident(problem.fluents), ident(problem.all_objects), ident(problem.actions), 2, case)
        ctx.cls("instantaneous")
        if nstates >= 2:
            ctx.nontriv(spec)
        return
    # temporal: structural comparison of the printed model parts
    for a in problem.actions:
        a2 = q.action(a.name)
        if isinstance(a, DurativeAction):
            if not isinstance(a2, DurativeAction):
                raise Violation("durative-became-instantaneous", a.name, case)
            d1, d2 = a.duration, a2.duration
            if (canon(d1.lower), canon(d1.upper), d1.is_left_open(), d1.is_right_open()) != (canon(d2.lower), canon(d2.upper), d2.is_left_open(), d2.is_right_open()):
                raise Violation("duration-differs", f"{a.name}: {d1} became {d2}", case)
            c1 = sorted((str(iv), sorted({canon(c) for c in cs})) for iv, cs in a.conditions.items())
            c2 = sorted((str(iv), sorted({canon(c) for c in cs})) for iv, cs in a2.conditions.items())
            if c1 != c2:
                raise Violation("timed-conditions-differ", f"{a.name}: {c1} became {c2}", case)
            e1 = sorted((str(t), sorted(map(effstr, es))) for t, es in a.effects.items())
            e2 = sorted((str(t), sorted(map(effstr, es))) for t, es in a2.effects.items())
            if e1 != e2:
                raise Violation("timed-effects-differ", f"{a.name}: {e1} became {e2}", case)
    from checks.c20 import timdig as _timdig

    te1 = sorted((repr(_timdig(t)), sorted(map(effstr, es))) for t, es in problem.timed_effects.items())
    te2 = sorted((repr(_timdig(t)), sorted(map(effstr, es))) for t, es in q.timed_effects.items())
    if te1 != te2:
        raise Violation("problem-timed-effects-differ", f"{te1} became {te2}", case)
    from checks.c20 import ivdig, timdig

    tg1 = sorted((repr(ivdig(t)), sorted({canon(g_) for g_ in es})) for t, es in problem.timed_goals.items())
    tg2 = sorted((repr(ivdig(t)), sorted({canon(g_) for g_ in es})) for t, es in q.timed_goals.items())
    if tg1 != tg2:
        raise Violation("timed-goals-differ", f"{tg1} became {tg2}", case)
    # verdict equality on generated plans
    from checks.c05 import duration_for

    r1, r2 = RefTT(problem), RefTT(q)
    insts = [(a, args) for a in problem.actions for args in r1.sim.instances(a)]
    judged = 0
    for steps in case.get("plans", []):
        if not insts:
            break
        plan1, plan2 = [], []
        for st_ in steps:
            a, args = insts[(st_["a"] * 7 + st_["args"]) % len(insts)]
            d = duration_for(b, r1, a, args, st_) if isinstance(a, DurativeAction) else None
            plan1.append((Fraction(st_["start"]), a, args, d))
            plan2.append((Fraction(st_["start"]), q.action(a.name), args, d))
        try:
            v1 = r1.validate(plan1)
            v2 = r2.validate(plan2)
        except Abstain as ab:
            ctx.abstain(ab.reason)
            continue
        judged += 1
        if v1[0] != v2[0]:
            raise Violation("temporal-verdict-differs", f"plan {[(str(s), a.name, args, str(d)) for s, a, args, d in plan1]}: {v1} on the original, {v2} on the re-read problem", case)
    ctx.cls("temporal")
    if judged:
        ctx.nontriv(spec)


def shard(ctx):
    ctx.shrink_budget = 25

    def oracle(case):
        ctx.evaluations -= 0
        check(ctx, case)

    ctx.run_hypothesis(cases(), oracle, ctx.scale(320, 8000))


def replay(ctx, case):
    check(ctx, case)
