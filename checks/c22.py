"""C22 — problem cloning yields an equal, independent copy that accepts the same edits."""

from __future__ import annotations

from collections import OrderedDict

from hypothesis import strategies as st

from harness import gen
from harness.build import UPEffectTypeError, build, frac
from harness.core import Abstain, Violation, case_hash

PROPERTY = "C22"
TECHNIQUE = "model-based operation-sequence testing: the same generated edit history is applied to a problem and to its clone; outcomes, equality, kind and an independent structural digest are compared after every step"
RULE = (
    "A generated problem of a drawn class (Problem with metrics / trajectory constraints / timed effects incl. increases / timed "
    "goals, temporal Problem with durative actions, ContingentProblem with oneof / or / unknown constraints, HierarchicalProblem "
    "with tasks, methods and an initial task network, MultiAgentProblem with agent-local and environment fluents) is cloned; "
    "then a generated history of 3-14 model-building operations is applied (add fluent / object / action - fresh and "
    "name-clashing -, add goal, timed goal, timed effect - assign / increase / decrease, conflicting and not -, trajectory "
    "constraint, quality metric, set initial value, add precondition / effect to an existing action fetched by name, add condition / effect at a timing of an existing "
    "durative action, fluents added without a default under per-type constructor defaults, contingent "
    "constraints, HTN task / method / subtask, agent fluent / action / goal).  Each operation is applied to both sides, or "
    "(independence steps) to one side first with the other side's digest checked unchanged, then to the other.  Oracle: right "
    "after cloning clone == original, equal hash, equal kind, equal structural digest; every operation succeeds on the clone iff "
    "it succeeds on the original (same exception class otherwise) and afterwards ==, kind and digest agree; a one-sided operation "
    "leaves the untouched side's digest and kind unchanged.  Non-trivial = history with >= 1 operation rejected or touching the "
    "timed-effect conflict bookkeeping / an existing action / a metric, and >= 1 one-sided step; distinct by canonical case."
)
SHARDS = {"quick": 8, "thorough": 16}

PROF = gen.Profile(ifuns=False, traj=True, max_actions=2)
TPROF = gen.Profile(
    ifuns=False, bounded=True, invariants=False, undefined=True, max_fluents=4, max_objects=3, max_arity=1,
    quantifiers=True, nested_fluent_args=False, forall_effects=True, division=False,
)
CPROF = gen.Profile(ifuns=False, traj=False, invariants=False, max_actions=2, fluent_kinds=["bool", "bool", "bool", "int"], undefined=False)

TIMINGS = [["gs", 1], ["gs", 2], ["gs", "1/2"], ["gs", 1], ["gs", 5]]


@st.composite
def cases(draw):
    cls = draw(st.sampled_from(["problem", "problem", "temporal", "contingent", "htn", "ma"]))
    case = {"class": cls}
    if cls == "temporal":
        g = gen.TGen(draw, TPROF)
        p = g.temporal_problem()
    elif cls == "contingent":
        g = gen.Gen(draw, CPROF)
        p = g.problem()
    else:
        g = gen.Gen(draw, PROF)
        p = g.problem()
    top = {"params": [], "vars": []}
    if cls in ("problem", "contingent", "htn"):
        # timed effects (also increases) and timed goals on instantaneous problems as well
        tes = []
        for _ in range(g.i(0, 3)):
            r = g.gen_effect(top, [])
            if r is not None and not r[0]["forall"]:
                e = r[0]
                e["t"] = g.pick(TIMINGS)
                tes.append(e)
        p["timed_effects"] = tes
        p["timed_goals"] = [{"iv": [["gs", 1], ["gs", 3], False, g.b()], "e": g.bool_expr(top, 1)} for _ in range(g.i(0, 1))]
        from checks.c20 import _decorate

        _decorate(g, p)
    if g.b(0.5):
        # per-type defaults given to the constructor: they apply to fluents added later without a default
        td = []
        if g.b(0.7):
            td.append(["bool", ["b", g.b()]])
        if g.b(0.6):
            td.append([["int", None, None], ["i", g.i(-1, 3)]])
        if g.b(0.3):
            td.append([["real", None, None], ["r", g.pick(["1/2", "3", "0"])]])
        p["type_defaults"] = td
    if cls == "contingent":
        case["hidden"] = _gen_hidden(g, p)
    if cls == "htn":
        from checks.c20 import _gen_htn

        case["htn"] = _gen_htn(g, p)
    if cls == "ma":
        case["ma"] = _gen_ma(g, p)
    case["problem"] = p
    # ---- edit history
    ops = []
    newf = 0
    for _ in range(g.i(3, 14)):
        kinds = ["add_fluent", "add_object", "add_action", "add_goal", "set_init", "act_effect", "act_pre"]
        if cls != "ma":
            kinds += ["timed_effect", "timed_effect", "timed_goal", "traj", "metric"]
        if cls == "temporal":
            kinds += ["dur_effect", "dur_effect", "dur_pair", "dur_pair", "dur_cond"]
        if cls != "ma":
            kinds += ["timed_pair"]
        if cls == "contingent":
            kinds += ["oneof", "or", "unknown"]
        if cls == "htn":
            kinds += ["add_task", "tn_subtask"]
        if cls == "ma":
            kinds += ["agent_fluent", "agent_goal"]
        k = g.pick(kinds)
        mode = g.pick(["both", "both", "orig-first", "clone-first"])
        op = {"op": k, "mode": mode}
        if k == "add_fluent":
            clash = g.b(0.2)
            t = g.pick(["bool", ["int", 0, 5], ["int", None, None], ["real", None, None]])
            name = g.pick(g.fluents)["name"] if clash else f"nf{newf}"
            op.update(name=name, type=t, default=g.const_of(t) if g.b(0.6) else None)
            if not clash:
                newf += 1
                g.fluents.append({"name": name, "type": t, "params": [], "default": op["default"]})
        elif k == "add_object":
            clash = g.b(0.2)
            tn = g.pick(g.types)[0]
            name = g.pick(g.objects)[0] if clash else f"no{len(g.objects)}"
            op.update(name=name, type=tn)
            if not clash:
                g.objects.append((name, tn))
        elif k == "add_action":
            a = g.gen_action(50 + len(ops))
            if g.b(0.25) and p["actions"]:
                a["name"] = g.pick(p["actions"])["name"]
            op["action"] = a
        elif k == "add_goal":
            op["e"] = g.bool_expr(top, g.i(0, 2))
        elif k == "timed_goal":
            op["iv"] = g.pick([[["gs", 1], ["gs", 1], False, False], [["gs", 1], ["gs", 3], True, False], [["gs", 0], ["ge", 0], False, False]])
            op["e"] = g.bool_expr(top, 1)
        elif k == "timed_effect":
            r = g.gen_effect(top, [])
            if r is None or r[0]["forall"]:
                continue
            e = r[0]
            e["t"] = g.pick(TIMINGS)
            op["eff"] = e
        elif k == "traj":
            op["e"] = g.gen_traj(top)
        elif k == "metric":
            op["clear"] = g.b(0.5)
            mk = g.pick(["length", "minfinal", "costs", "oversub"])
            if mk == "costs":
                costs = [[a["name"], ["i", g.i(0, 3)]] for a in p["actions"] if "dur" not in a and g.b(0.7)]
                op["metric"] = {"kind": "costs", "costs": costs, "default": ["i", g.i(0, 2)]}
            elif mk == "minfinal":
                op["metric"] = {"kind": "minfinal", "e": g.num_expr(top, 1)}
            elif mk == "oversub":
                op["metric"] = {"kind": "oversub", "goals": [[g.bool_expr(top, 1), g.pick([1, 2, "1/2"])]]}
            else:
                op["metric"] = {"kind": "length"}
        elif k == "set_init":
            f = g.pick(g.fluents)
            doms = [g.objs_of(pt[1]) if pt != "bool" and pt[0] == "user" else None for _, pt in f["params"]]
            if any(d is None or not d for d in doms):
                continue
            v = g.const_of(f["type"], within=not g.b(0.2))
            if v is None:
                continue
            op.update(fl=["fl", f["name"]] + [["obj", g.pick(d)] for d in doms], val=v)
        elif k in ("act_effect", "act_pre"):
            inst = [a for a in p["actions"] if "dur" not in a]
            if not inst:
                continue
            a = g.pick(inst)
            sc = {"params": [(n, t) for n, t in a["params"]], "vars": []}
            op["action"] = a["name"]
            if k == "act_pre":
                op["e"] = g.bool_expr(sc, 1)
            else:
                r = g.gen_effect(sc, [])
                if r is None:
                    continue
                op["eff"] = r[0]
        elif k in ("dur_pair", "timed_pair"):
            # an increase / decrease of a numeric fluent at one time, then an assignment of the same fluent at
            # ANOTHER time of the same container: no conflict - unless bookkeeping leaks between times
            nums = [f for f in g.fluents if f["type"] != "bool" and f["type"][0] in ("int", "real") and not f["params"] and not f.get("nowrite")]
            if not nums:
                continue
            f = g.pick(nums)
            first = {"kind": g.pick(["inc", "dec"]), "fl": ["fl", f["name"]], "val": ["i", 1], "cond": None, "forall": []}
            second = {"kind": "assign", "fl": ["fl", f["name"]], "val": g.const_of(f["type"]), "cond": None, "forall": []}
            if g.b(0.3):
                first, second = second, first
            if k == "dur_pair":
                durs = [a for a in p["actions"] if "dur" in a]
                if not durs:
                    continue
                a = g.pick(durs)
                t1, t2 = g.pick([(["s", 0], ["e", 0]), (["e", 0], ["s", 0]), (["s", 0], ["s", 1])])
                used = []
                for e_ in a["effs"]:
                    if e_["t"] not in used:
                        used.append(e_["t"])
                if len(used) >= 2 and g.b(0.7):
                    # two times at which the action already has effects (their bookkeeping exists at clone time)
                    i1 = g.i(0, len(used) - 1)
                    i2 = (i1 + g.i(1, len(used) - 1)) % len(used)
                    t1, t2 = used[i1], used[i2]
                ops.append({"op": "dur_effect", "mode": mode, "action": a["name"], "eff": first, "t": t1})
                ops.append({"op": "dur_effect", "mode": g.pick(["both", "orig-first", "clone-first"]), "action": a["name"], "eff": second, "t": t2})
            else:
                t1, t2 = g.pick([(["gs", 1], ["gs", 2]), (["gs", 5], ["gs", 1])])
                ops.append({"op": "timed_effect", "mode": mode, "eff": dict(first, t=t1)})
                ops.append({"op": "timed_effect", "mode": g.pick(["both", "orig-first", "clone-first"]), "eff": dict(second, t=t2)})
            continue
        elif k in ("dur_effect", "dur_cond"):
            durs = [a for a in p["actions"] if "dur" in a]
            if not durs:
                continue
            a = g.pick(durs)
            sc = {"params": [(n, t) for n, t in a["params"]], "vars": []}
            op["action"] = a["name"]
            if k == "dur_cond":
                op["iv"] = g.pick([[["s", 0], ["s", 0], False, False], [["s", 0], ["e", 0], False, False], [["e", 0], ["e", 0], False, False]])
                op["e"] = g.bool_expr(sc, 1)
            else:
                r = g.gen_effect(sc, [])
                if r is None:
                    continue
                op["eff"] = r[0]
                op["t"] = g.pick([["s", 0], ["e", 0], ["s", 0], ["e", 0], ["s", 1]])
        elif k in ("oneof", "or", "unknown"):
            bools = [f for f in g.fluents if f["type"] == "bool" and not f["params"]]
            if not bools:
                continue
            n = 1 if k == "unknown" else g.i(1, min(3, len(bools)))
            op["fluents"] = [g.pick(bools)["name"] for _ in range(n)]
        elif k == "add_task":
            op["name"] = g.pick(["t0", f"nt{len(ops)}"])
        elif k == "tn_subtask":
            op["id"] = g.pick(["i0", f"ns{len(ops)}"])
        elif k == "agent_fluent":
            op.update(agent=g.i(0, 1), name=g.pick(["af0", f"naf{len(ops)}"]), default=g.b(), nodefault=g.b(0.4))
        elif k == "agent_goal":
            op.update(agent=g.i(0, 1), name="af0", dot=g.b())
        ops.append(op)
    case["ops"] = ops
    return case


def _gen_hidden(g, p):
    bools = [f for f in p["fluents"] if f["type"] == "bool" and not f["params"]]
    out = []
    for _ in range(g.i(0, 2)):
        if not bools:
            break
        k = g.pick(["oneof", "or", "unknown"])
        n = 1 if k == "unknown" else g.i(1, min(3, len(bools)))
        out.append([k, [g.pick(bools)["name"] for _ in range(n)]])
    return out


def _gen_ma(g, p):
    """two agents; agent-local Boolean fluents af0/af1, actions reading local + environment fluents"""
    agents = []
    for k in range(2):
        acts = []
        for j in range(g.i(1, 2)):
            acts.append({"name": f"act{j}", "pre_local": g.b(), "pre_env": g.b(), "eff_local": g.b(), "cond": g.b(0.4)})
        agents.append({"name": f"ag{k}", "fluents": [["af0", g.b()], ["af1", g.b()]][: g.i(1, 2)], "actions": acts})
    return {"agents": agents, "goals": [[g.i(0, 1), "af0"] for _ in range(g.i(0, 2))]}


# ------------------------------------------------------------------ construction


def build_problem(case):
    from unified_planning.environment import get_environment

    cls = case["class"]
    if cls == "contingent":
        from unified_planning.model.contingent import ContingentProblem

        b = build(case["problem"], problem_cls=ContingentProblem)
        for k, names in case["hidden"]:
            apply_hidden(b.problem, b, k, names)
        return b, b.problem
    if cls == "htn":
        from checks.c20 import build_htn

        b = build_htn(case)
        return b, b.problem
    if cls == "ma":
        return build_ma(case)
    b = build(case["problem"])
    return b, b.problem


def apply_hidden(p, b, k, names):
    fes = [b.em.FluentExp(b.fluents[n]) for n in names]
    if k == "oneof":
        p.add_oneof_initial_constraint(fes)
    elif k == "or":
        p.add_or_initial_constraint(fes)
    else:
        p.add_unknown_initial_constraint(fes[0])


def build_ma(case):
    """MultiAgentProblem: the generated fluents become environment fluents; objects and types as generated"""
    from unified_planning.environment import Environment
    from unified_planning.model import Fluent, InstantaneousAction, Object
    from unified_planning.model.multi_agent import Agent, MultiAgentProblem

    spec = case["problem"]
    # re-use the single-agent builder for types / objects / fluents / expressions, then transplant
    b = build({**spec, "actions": [], "goals": [], "traj": [], "init": spec["init"], "metric": None, "timed_effects": [], "timed_goals": []})
    env, em, tm = b.env, b.em, b.tm
    mp = MultiAgentProblem("ma", env, initial_defaults={b.typ(t): b._const_noobj(v) for t, v in spec.get("type_defaults") or []})
    for o in b.problem.all_objects:
        mp.add_object(o)
    for f in b.problem.fluents:
        d = b.problem.fluents_defaults.get(f)
        if d is None:
            # MultiAgentProblem.initial_values (used by ==) needs every ground fluent to have a value
            t = f.type
            if t.is_bool_type():
                d = em.FALSE()
            elif t.is_int_type() or t.is_real_type():
                v = t.lower_bound if t.lower_bound is not None else (t.upper_bound if t.upper_bound is not None else 0)
                d = em.Int(int(v)) if t.is_int_type() else em.Real(frac(v))
            else:
                objs = list(b.problem.objects(t))
                if not objs:
                    continue
                d = em.ObjectExp(objs[0])
        mp.ma_environment.add_fluent(f, default_initial_value=d)
    for k, v in b.problem.explicit_initial_values.items():
        if mp.ma_environment.has_fluent(k.fluent().name):
            mp.set_initial_value(k, v)
    envbools = [f for f in mp.ma_environment.fluents if f.type.is_bool_type() and f.arity == 0]
    b.ma_agents = []
    for ag in case["ma"]["agents"]:
        a = Agent(ag["name"], mp)
        afl = {}
        for fname, dv in ag["fluents"]:
            afl[fname] = a.add_fluent(fname, tm.BoolType(), default_initial_value=dv)
        for ac in ag["actions"]:
            act = InstantaneousAction(ac["name"], _env=env)
            loc = afl["af0"]
            if ac["pre_local"]:
                act.add_precondition(em.Not(em.FluentExp(loc)))
            if ac["pre_env"] and envbools:
                act.add_precondition(em.FluentExp(envbools[0]))
            if ac["eff_local"] or not envbools:
                act.add_effect(em.FluentExp(loc), True, em.FluentExp(envbools[0]) if (ac["cond"] and envbools) else True)
            else:
                act.add_effect(em.FluentExp(envbools[0]), True)
            a.add_action(act)
        mp.add_agent(a)
        b.ma_agents.append(a)
    for ai, fname in case["ma"]["goals"]:
        ag = mp.agents[ai]
        if ag.has_fluent(fname):
            mp.add_goal(em.Dot(ag, em.FluentExp(ag.fluent(fname))))
    return b, mp


# ------------------------------------------------------------------ digest


def digest(p):
    from checks.c20 import actdig, edig, problem_digest, tdig
    from unified_planning.model.contingent import ContingentProblem
    from unified_planning.model.multi_agent import MultiAgentProblem

    if isinstance(p, MultiAgentProblem):
        d = {
            "class": "ma",
            "name": p.name,
            "types": [tdig(t) for t in p.user_types],
            "objects": sorted((o.name, tdig(o.type)) for o in p.all_objects),
            "env_fluents": [(f.name, tdig(f.type)) for f in p.ma_environment.fluents],
            "env_defaults": sorted((f.name, repr(edig(v))) for f, v in p.ma_environment.fluents_defaults.items()),
            "explicit": sorted((repr(edig(k)), repr(edig(v))) for k, v in p.explicit_initial_values.items()),
            "goals": [repr(edig(g)) for g in p.goals],
            "agents": [
                (a.name, [(f.name, tdig(f.type)) for f in a.fluents], sorted((f.name, repr(edig(v))) for f, v in a.fluents_defaults.items()),
                 [actdig(x) for x in a.actions], [repr(edig(g)) for g in a.public_goals], [repr(edig(g)) for g in a.private_goals])
                for a in p.agents
            ],
        }
        return d
    d = problem_digest(p)
    d["defaults"] = sorted((f.name, repr(edig(v))) for f, v in p.fluents_defaults.items())
    d["type_defaults"] = sorted((repr(tdig(t)), repr(edig(v))) for t, v in p.initial_defaults.items())
    if isinstance(p, ContingentProblem):
        d["hidden"] = sorted(repr(edig(h)) for h in p.hidden_fluents)
        d["oneof"] = sorted(repr(sorted(repr(edig(x)) for x in c)) for c in p.oneof_constraints)
        d["or"] = sorted(repr(sorted(repr(edig(x)) for x in c)) for c in p.or_constraints)
    return d


def _edig_dot(e):
    return repr(e)


# ------------------------------------------------------------------ operations


class Skip(Exception):
    pass


def apply_op(case, b, p, op, side):
    """applies op to problem p (side: 'orig' / 'clone'); returns None or raises what UP raises"""
    from unified_planning.model import Fluent, InstantaneousAction, Object
    from unified_planning.model import metrics as M

    em, tm = b.em, b.tm
    k = op["op"]
    ma = case["class"] == "ma"
    if k == "add_fluent":
        t = b.typ(op["type"])
        fl = b.extra_fluents.get(op["name"])
        if fl is None:
            fl = Fluent(op["name"], t, environment=b.env)
            b.extra_fluents[op["name"]] = fl
        target = p.ma_environment if ma else p
        if op["default"] is not None:
            target.add_fluent(fl, default_initial_value=b.expr(op["default"]))
        else:
            target.add_fluent(fl)
        b.fluents.setdefault(op["name"], fl)
    elif k == "add_object":
        o = b.extra_objects.get(op["name"])
        if o is None:
            o = Object(op["name"], b.types[op["type"]], b.env)
            b.extra_objects[op["name"]] = o
        p.add_object(o)
        b.objects.setdefault(op["name"], o)
    elif k == "add_action":
        act = b.make_action(op["action"])  # a separate object per side
        if ma:
            p.agents[0].add_action(act)
        else:
            p.add_action(act)
    elif k == "add_goal":
        p.add_goal(b.expr(op["e"]))
    elif k == "timed_goal":
        p.add_timed_goal(b.interval(op["iv"]), b.expr(op["e"]))
    elif k == "timed_effect":
        e = op["eff"]
        try:
            b.add_effect(p, e, b.timing(e["t"]))
        except UPEffectTypeError:
            raise Skip()
    elif k == "traj":
        p.add_trajectory_constraint(b.expr(op["e"]))
    elif k == "metric":
        if op["clear"]:
            p.clear_quality_metrics()
        m = op["metric"]
        if m["kind"] == "costs":
            costs = {}
            for an, c in m["costs"]:
                if p.has_action(an):
                    costs[p.action(an)] = b.expr(c)
            p.add_quality_metric(M.MinimizeActionCosts(costs, b.expr(m["default"]), b.env))
        else:
            p.add_quality_metric(b.metric(m))
    elif k == "set_init":
        p.set_initial_value(b.expr(op["fl"]), b.expr(op["val"]))
    elif k in ("act_effect", "act_pre"):
        if ma:
            ag = p.agents[0]
            if not ag.actions:
                raise Skip()
            act = ag.actions[0]
            if k == "act_pre":
                act.add_precondition(em.TRUE())
            else:
                act.add_effect(em.FluentExp(ag.fluents[0]), False)
            return
        if not p.has_action(op["action"]):
            raise Skip()
        act = p.action(op["action"])
        if not isinstance(act, InstantaneousAction):
            raise Skip()
        b.params = {q.name: q for q in act.parameters}
        try:
            if k == "act_pre":
                act.add_precondition(b.expr(op["e"]))
            else:
                try:
                    b.add_effect(act, op["eff"])
                except UPEffectTypeError:
                    raise Skip()
        finally:
            b.params = {}
    elif k in ("dur_effect", "dur_cond"):
        from unified_planning.model import DurativeAction

        if not p.has_action(op["action"]):
            raise Skip()
        act = p.action(op["action"])
        if not isinstance(act, DurativeAction):
            raise Skip()
        b.params = {q.name: q for q in act.parameters}
        try:
            if k == "dur_cond":
                act.add_condition(b.interval(op["iv"]), b.expr(op["e"]))
            else:
                try:
                    b.add_effect(act, op["eff"], b.timing(op["t"]))
                except UPEffectTypeError:
                    raise Skip()
        finally:
            b.params = {}
    elif k in ("oneof", "or", "unknown"):
        apply_hidden(p, b, k, op["fluents"])
    elif k == "add_task":
        p.add_task(op["name"])
    elif k == "tn_subtask":
        tasks = list(p.tasks)
        t0 = next((t for t in tasks if not t.parameters), None)
        if t0 is None:
            raise Skip()
        p.task_network.add_subtask(t0, ident=op["id"])
    elif k == "agent_fluent":
        # (MultiAgentProblem.__eq__ needs every ground fluent to have an initial value, so a fluent is only left
        # without its own default when a per-type default exists)
        if op.get("nodefault") and any(t == "bool" for t, _ in case["problem"].get("type_defaults") or []):
            p.agents[op["agent"]].add_fluent(op["name"], tm.BoolType())
        else:
            p.agents[op["agent"]].add_fluent(op["name"], tm.BoolType(), default_initial_value=op["default"])
    elif k == "agent_goal":
        ag = p.agents[op["agent"]]
        if not ag.has_fluent(op["name"]):
            raise Skip()
        fe = em.FluentExp(ag.fluent(op["name"]))
        p.add_goal(em.Dot(ag, fe) if op["dot"] else em.Dot(ag, em.Not(fe)))
    else:
        raise ValueError(k)


def outcome(case, b, p, op, side):
    from unified_planning.exceptions import UPException

    try:
        apply_op(case, b, p, op, side)
        return "ok"
    except Skip:
        return "skip"
    except (UPException, AssertionError, ValueError, KeyError, TypeError) as e:
        return f"raised:{type(e).__name__}"


def compare(case, orig, clone, where, sigp):
    from harness.core import Violation
    from checks.c20 import first_diff

    d0, d1 = digest(orig), digest(clone)
    df = first_diff(d0, d1, "problem")
    if df:
        part = df.split(":")[0].split("[")[0]
        raise Violation(f"{sigp}:digest-differs:{case['class']}:{part}", f"{where}: original and clone differ structurally: {df}", case)
    if not (orig == clone) or not (clone == orig):
        raise Violation(f"{sigp}:not-equal:{case['class']}", f"{where}: original != clone although their structural digests agree", case)
    if hash(orig) != hash(clone):
        raise Violation(f"{sigp}:hash-differs:{case['class']}", f"{where}: original == clone but hashes differ", case)
    k0, k1 = orig.kind, clone.kind
    if k0 != k1:
        a, c = set(k0.features), set(k1.features)
        raise Violation(f"{sigp}:kind-differs:{case['class']}", f"{where}: kinds differ: only original {sorted(a - c)}, only clone {sorted(c - a)}", case)
    return d0


def check(ctx, case):
    from checks.c20 import first_diff

    b, orig = build_problem(case)
    b.extra_fluents, b.extra_objects = {}, {}
    try:
        clone = orig.clone()
    except Exception as e:
        raise Violation(f"clone-raises:{case['class']}:{type(e).__name__}", f"clone() raised {type(e).__name__}: {str(e)[:300]}", case)
    compare(case, orig, clone, "right after clone()", "fresh")
    feats = set()
    nsteps = 0
    for i, op in enumerate(case["ops"]):
        mode = op["mode"]
        first, second = (orig, clone) if mode != "clone-first" else (clone, orig)
        n1, n2 = ("original", "clone") if mode != "clone-first" else ("clone", "original")
        desc = f"step {i} {op['op']} ({mode})"
        if mode == "both":
            r1 = outcome(case, b, first, op, n1)
            r2 = outcome(case, b, second, op, n2)
        else:
            before = digest(second)
            kind_before = second.kind
            r1 = outcome(case, b, first, op, n1)
            after = digest(second)
            df = first_diff(before, after, "problem")
            if df:
                raise Violation(f"not-independent:{case['class']}:{op['op']}", f"{desc}: applying the operation to the {n1} changed the {n2}: {df}", case)
            if second.kind != kind_before:
                raise Violation(f"not-independent-kind:{case['class']}:{op['op']}", f"{desc}: applying the operation to the {n1} changed the kind of the {n2}", case)
            r2 = outcome(case, b, second, op, n2)
            feats.add("one-sided")
        if r1 == "skip" or r2 == "skip":
            if r1 != r2:
                raise Violation(f"outcome-differs:{case['class']}:{op['op']}", f"{desc}: {n1}: {r1}, {n2}: {r2}", case)
            continue
        nsteps += 1
        if r1 != r2:
            raise Violation(f"outcome-differs:{case['class']}:{op['op']}", f"{desc}: {n1}: {r1}, {n2}: {r2}", case)
        if r1.startswith("raised"):
            feats.add("rejected")
        if op["op"] in ("timed_effect", "act_effect", "act_pre", "metric", "dur_effect"):
            feats.add("bookkeeping")
        ctx.cls(f"op:{op['op']}:{'ok' if r1 == 'ok' else 'rejected'}")
        compare(case, orig, clone, f"after {desc} ({r1})", "edited")
    ctx.cls(f"class:{case['class']}")
    if nsteps >= 3 and "one-sided" in feats and ("rejected" in feats or "bookkeeping" in feats):
        ctx.nontriv(case_hash(case), {"class": case["class"], "ops": [o["op"] + ":" + o["mode"] for o in case["ops"]]})


def shard(ctx):
    def oracle(case):
        check(ctx, case)

    ctx.run_hypothesis(cases(), oracle, ctx.scale(4000, 60000))


def replay(ctx, case):
    check(ctx, case)
