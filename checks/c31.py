"""C31 — meta-engines return only valid plans and truthful statuses."""

from __future__ import annotations

from fractions import Fraction

from hypothesis import strategies as st

from harness import gen
from harness.build import build
from harness.core import Abstain, CaseTimeout, Violation, case_hash
from harness.refsim import UNDEF, RefSim, const_value, freeze

PROPERTY = "C31"
TECHNIQUE = "property-based testing of the meta-engines wrapped around a harness-owned exact breadth-first planner (registered engine `refbfs`), judged by the reference simulator and an exhaustive reachable-state enumeration"
RULE = (
    "(a) generated finite problems with interpreted functions in preconditions, effect conditions and Boolean / numeric / object "
    "effect values, solved with interpreted_functions_planning[refbfs]: a returned plan must be valid for the ORIGINAL problem "
    "under the reference simulator (which calls the functions for real); when exhaustive reference search finds the problem "
    "solvable the result must be positive, when it proves it unsolvable no plan may be returned; (b) generated problems with an "
    "Oversubscription metric (int / rational / negative / zero gains, overlapping and mutually exclusive soft goals, hard goals "
    "that may be unreachable) solved with oversubscription[refbfs]: SOLVED_OPTIMALLY => the plan is valid for the hard goals and "
    "its gain equals the maximum gain over ALL reachable states that satisfy the hard goals; UNSOLVABLE_PROVEN => no reachable "
    "state satisfies them; any returned plan is valid.  The wrapped planner is exact by construction (it says "
    "UNSOLVABLE_INCOMPLETELY when capped; such cases are counted as inconclusive).  Non-trivial = (a) cases where the wrapped "
    "planner was called more than once (the first relaxed plan was invalid and function values were learnt), (b) cases whose best "
    "subset of soft goals is neither all nor none; distinct by canonical case."
)
SHARDS = {"quick": 8, "thorough": 16}
CASE_TIMEOUT_S = 20  # CPU seconds; cases normally take milliseconds (finite, tiny state spaces)
HANG_IS_VIOLATION = True  # a planning loop that does not return is the property failing
_CASE_NO = 0

IF_PROF = gen.Profile(
    ifuns=True, undefined=False, invariants=False, traj=False, bounded=True, bounded_p=1.0, fluent_kinds=["bool", "bool", "int", "obj"], max_fluents=3, max_objects=3,
    max_arity=1, max_actions=3, max_pre=2, max_eff=2, division=False, real_consts=False, nested_fluent_args=False, forall_effects=False, max_goals=2,
)
OS_PROF = gen.Profile(
    ifuns=False, undefined=False, invariants=False, traj=False, bounded=True, bounded_p=1.0, fluent_kinds=["bool", "bool", "bool", "int"], max_fluents=4, max_objects=2,
    max_arity=1, max_actions=3, max_pre=1, max_eff=2, division=False, real_consts=False, nested_fluent_args=False, max_goals=1, forall_effects=False,
)


def finite(p):
    """finite state spaces (the wrapped planner must be exhaustive): every numeric fluent gets both bounds"""
    for f in p["fluents"]:
        t = f["type"]
        if t != "bool" and t[0] in ("int", "real"):
            lo = t[1] if t[1] is not None else (int(Fraction(str(t[2]))) - 5 if t[2] is not None else 0)
            hi = t[2] if t[2] is not None else int(Fraction(str(lo))) + 5
            f["type"] = [t[0], lo, hi]
    return p


@st.composite
def cases(draw):
    k = draw(st.sampled_from(["if", "oversub"]))
    if k == "if":
        g = gen.Gen(draw, IF_PROF)
        p = g.problem()
        if not p["ifuns"]:
            # make sure an interpreted function exists and is used in a precondition
            p["ifuns"].append({"name": "gx", "params": [["int", None, None]], "fn": ["lin", [1], g.i(0, 2), g.i(2, 3)], "ret": "bool"})
        # interpreted functions must matter: most actions get a precondition (or a conditional effect condition)
        # that calls one, plain or negated, so that the first relaxed plan is often invalid
        bools = [f_ for f_ in p["ifuns"] if f_["ret"] == "bool"]
        for a in p["actions"]:
            sc = {"params": [(n, t) for n, t in a["params"]], "vars": []}
            if bools and g.b(0.7):
                app = g.ifun_app(g.pick(bools), sc, 1)
                if app is not None:
                    a["pre"].append(["not", app] if g.b(0.4) else app)
            if bools and a["eff"] and g.b(0.3):
                app = g.ifun_app(g.pick(bools), sc, 1)
                if app is not None:
                    a["eff"][0]["cond"] = app
        # goals that some action can plausibly achieve: what a constant Boolean effect on a ground fluent establishes
        achievable = []
        for a in list(p["actions"]):
            for e in a["eff"]:
                if e["val"][0] == "b" and not e["forall"] and all(x[0] == "obj" for x in e["fl"][2:]):
                    achievable.append(e["fl"] if e["val"][1] else ["not", e["fl"]])
                    if bools and g.b(0.5) and not any(x["name"] == "alt" for x in p["actions"]):
                        # a second achiever guarded by another function call: when the first relaxed plan turns out
                        # invalid the planner has to learn the value and switch routes
                        sc = {"params": [(n, t) for n, t in a["params"]], "vars": []}
                        app = g.ifun_app(g.pick(bools), sc, 1)
                        if app is not None:
                            p["actions"].append({"name": "alt", "params": a["params"], "pre": [["not", app] if g.b(0.5) else app], "eff": [dict(e, cond=None)]})
        if achievable and g.b(0.8):
            goal = g.pick(achievable)
            p["goals"] = [goal]
            # ... and that does not hold initially
            fl = goal[1] if goal[0] == "not" else goal
            p["init"] = [e for e in p["init"] if e[0] != fl] + [[fl, ["b", goal[0] == "not"]]]
        elif not p["goals"]:
            p["goals"] = [g.bool_expr({"params": [], "vars": []}, 1)]
        if not g.b(0.15):
            # nested calls g(h(x)) are kept rare: they have root causes of their own (known findings) that would
            # otherwise end most searches early
            rets = {f_["name"]: f_["ret"] for f_ in p["ifuns"]}

            def flat(x, inside=False):
                if isinstance(x, dict):
                    return {k_: flat(v_, inside) for k_, v_ in x.items()}
                if isinstance(x, list):
                    if x and x[0] == "ifn":
                        if inside:
                            r = rets[x[1]]
                            if r == "bool":
                                return ["b", True]
                            if r[0] == "int":
                                return ["i", 1]
                            objs = [o for o, t in p["objects"] if t == r[1]] or [o for o, t in p["objects"] if t in g.subtypes(r[1])]
                            return ["obj", objs[0]] if objs else x
                        return x[:2] + [flat(v_, True) for v_ in x[2:]]
                    return [flat(v_, inside) for v_ in x]
                return x

            p["actions"] = flat(p["actions"])
            p["goals"] = flat(p["goals"])
        if g.b(0.25):
            # data flow: a value computed by an interpreted function is stored in a fluent, copied on by another
            # action (declared before or after the one that stores it) and needed by the goal
            c1, k0, m = g.i(1, 3), g.i(0, 3), g.i(2, 4)
            s0 = g.i(0, 2)
            p["ifuns"].append({"name": "gflow", "params": [["int", None, None]], "fn": ["lin", [c1], k0, m], "ret": ["int", None, None], "offset": 0})
            for n_, d_ in (("ifsrc", s0), ("ifmid", 0), ("ifdst", 0)):
                p["fluents"].append({"name": n_, "type": ["int", 0, 5], "params": [], "default": ["i", d_]})
            copy = {"name": "ifcopy", "params": [], "pre": [], "eff": [{"kind": "assign", "fl": ["fl", "ifdst"], "val": ["fl", "ifmid"], "cond": None, "forall": []}]}
            store = {"name": "ifstore", "params": [], "pre": [], "eff": [{"kind": "assign", "fl": ["fl", "ifmid"], "val": ["ifn", "gflow", ["fl", "ifsrc"]], "cond": None, "forall": []}]}
            if g.b(0.7):
                p["actions"] = [copy] + p["actions"] + [store]
            else:
                p["actions"] = [store] + p["actions"] + [copy]
            want = (c1 * s0 + k0) % m if g.b(0.75) else g.i(0, 3)
            p["goals"] = p["goals"][: g.i(0, 1)] + [["=", ["fl", "ifdst"], ["i", want]]]
        return {"kind": "if", "problem": finite(p)}
    g = gen.Gen(draw, OS_PROF)
    p = g.problem()
    top = {"params": [], "vars": []}
    goals, seen = [], []
    for _ in range(g.i(1, 3)):
        e = g.bool_expr(top, g.i(0, 1))
        if e in seen:
            continue
        seen.append(e)
        goals.append([e, g.pick([1, 2, 3, -1, -2, -1, 5, "1/2", "-3/2", 0])])
    p["metric"] = {"kind": "oversub", "goals": goals}
    return {"kind": "oversub", "problem": finite(p)}


def nested_ifn(x, inside=False):
    """does the spec contain an interpreted-function call inside the arguments of another one?"""
    if isinstance(x, dict):
        return any(nested_ifn(v, inside) for v in x.values())
    if isinstance(x, list):
        if x and x[0] == "ifn":
            if inside:
                return True
            return any(nested_ifn(v, True) for v in x[2:])
        return any(nested_ifn(v, inside) for v in x)
    return False


def reachable(ref, cap=6000):
    """all reachable states (dict frozen -> (state, path)) or None when the cap is hit"""
    s0 = ref.initial_state()
    if ref.state_ok(s0) is not None:
        return {}
    problem = ref.problem
    instances = [(a, args) for a in problem.actions for args in ref.instances(a)]
    seen = {freeze(s0): (s0, [])}
    frontier = [(s0, [])]
    while frontier:
        nxt = []
        for s, path in frontier:
            for a, args in instances:
                s2, _ = ref.try_apply(s, a, args)
                if s2 is None:
                    continue
                k = freeze(s2)
                if k in seen:
                    continue
                seen[k] = (s2, path + [(a, args)])
                if len(seen) > cap:
                    return None
                nxt.append((s2, path + [(a, args)]))
        frontier = nxt
    return seen


def check(ctx, case):
    from unified_planning.engines import PlanGenerationResultStatus as S
    from unified_planning.environment import get_environment
    from unified_planning.shortcuts import OneshotPlanner

    from harness import refbfs
    from harness.explore import Explorer

    env = get_environment()  # the meta-engines build their validators / compilers in the global environment
    env.credits_stream = None
    refbfs.register(env)
    # All cases of a process share that environment, whose type manager interns user types by (name, parent):
    # the same type name with different parents in two cases would be two different types of one environment.
    # Type names are therefore made unique per case (a renaming, not part of the case's meaning).
    global _CASE_NO
    _CASE_NO += 1
    tnames = {t[0] for t in case["problem"]["types"]}

    def ren(x):
        if isinstance(x, list):
            if len(x) == 2 and x[0] == "user" and x[1] in tnames:
                return ["user", f"{x[1]}c{_CASE_NO}"]
            return [ren(y) for y in x]
        if isinstance(x, dict):
            return {k_: ren(v_) for k_, v_ in x.items()}
        return x

    spec = ren(case["problem"])
    spec["types"] = [[f"{t}c{_CASE_NO}", None if par is None else f"{par}c{_CASE_NO}"] for t, par in case["problem"]["types"]]
    spec["objects"] = [[o, f"{t}c{_CASE_NO}"] for o, t in case["problem"]["objects"]]
    b = build(spec, env=env)
    problem = b.problem
    kind = case["kind"]
    name = "interpreted_functions_planning[refbfs]" if kind == "if" else "oversubscription[refbfs]"
    ref = RefSim(problem)
    # goals that already hold initially make the empty plan a solution: negate them (deterministic in the case)
    try:
        if problem.goals and ref.state_ok(ref.initial_state()) is None and ref.goal(ref.initial_state()):
            gs = list(problem.goals)
            problem.clear_goals()
            problem.add_goal(b.em.Not(b.em.And(gs)))
            ref = RefSim(problem)
            ctx.cls("goal-negated")
    except Abstain:
        pass
    calls0, inc0 = refbfs.STATS["calls"], refbfs.STATS["incomplete"]
    try:
        with OneshotPlanner(name=name) as planner:
            if not planner.supports(problem.kind):
                ctx.cls(f"unsupported:{kind}")
                raise Abstain("unsupported-kind")
            res = planner.solve(problem)
    except CaseTimeout:
        if kind == "if" and nested_ifn(case["problem"]):
            raise Violation("hang:nested-calls", f"{name}.solve used more than the per-case CPU budget on a problem with nested interpreted-function calls", case)
        raise
    except Abstain:
        raise
    except Exception as e:
        import traceback

        tb = traceback.extract_tb(e.__traceback__)
        where = next((f"{f.filename.split('/')[-1]}:{f.name}" for f in reversed(tb) if "unified_planning" in f.filename), "?")
        frames = " <- ".join(f"{f.filename.split('/')[-1]}:{f.lineno}:{f.name}" for f in reversed(tb) if "unified_planning" in f.filename)[:700]
        raise Violation(f"solve-exception:{kind}:{type(e).__name__}:{where}", f"{name}.solve raised {type(e).__name__}: {str(e)[:300]} [{frames}]", case)
    ncalls = refbfs.STATS["calls"] - calls0
    inconclusive = refbfs.STATS["incomplete"] > inc0
    positive = res.status in (S.SOLVED_SATISFICING, S.SOLVED_OPTIMALLY)
    steps = None
    if res.plan is not None:
        steps = [(problem.action(ai.action.name), tuple(const_value(x) for x in ai.actual_parameters)) for ai in res.plan.actions]
    desc = None if steps is None else [[a.name, list(map(str, args))] for a, args in steps]
    # ---- validity of whatever plan is returned (goals = hard goals; the metric plays no role in validity)
    if positive:
        if steps is None:
            raise Violation(f"positive-status-without-plan:{kind}", f"status {res.status.name} but no plan", case)
        ex = Explorer(problem)
        ok, why = ex.is_valid(steps)
        if not ok:
            raise Violation(f"invalid-plan-returned:{kind}", f"{name} returned {desc} with status {res.status.name}, but the plan is not valid for the original problem: {why}", case)
    elif res.plan is not None:
        raise Violation(f"plan-with-negative-status:{kind}", f"status {res.status.name} with a plan", case)
    # ---- truthfulness of the status, against the complete reachable space
    space = reachable(ref)
    if space is None:
        ctx.abstain("state-space-cap")
        return
    goal_states = [(s, path) for s, path in space.values() if ref.goal(s)]
    if kind == "if":
        if goal_states and not positive:
            if inconclusive or res.status in (S.TIMEOUT, S.UNSOLVABLE_INCOMPLETELY):
                ctx.abstain("wrapped-planner-inconclusive")
                return
            sp = [[a.name, list(map(str, args))] for a, args in min((p for _, p in goal_states), key=len)]
            # nested calls g(h(x)) have a root cause of their own (see known findings): separate signature
            sig = "solvable-problem-not-solved:if" + (":nested-calls" if nested_ifn(case["problem"]) else "")
            raise Violation(sig, f"{name} returned {res.status.name} but the problem is solvable, e.g. by {sp}", case)
        ctx.cls(f"if:{'solved' if positive else 'unsolvable'}:calls={min(ncalls, 4)}")
        if ncalls >= 2:
            ctx.nontriv(case_hash(case), {"kind": kind, "planner_calls": ncalls, "status": res.status.name})
        return
    # ---- oversubscription
    metric = problem.quality_metrics[0]

    def gain(s):
        total = Fraction(0)
        for g_, w in metric.goals.items():
            v, touched = ref.E.ev(g_, s, {}, {})
            if touched:
                raise Abstain("metric-reads-undefined")
            if v is True:
                total += Fraction(w)
        return total

    if res.status == S.UNSOLVABLE_PROVEN and goal_states:
        raise Violation("unsolvable-proven-but-solvable:oversub", f"{name} says UNSOLVABLE_PROVEN but a reachable state satisfies the hard goals", case)
    if goal_states and not positive:
        if inconclusive or res.status in (S.TIMEOUT, S.UNSOLVABLE_INCOMPLETELY):
            ctx.abstain("wrapped-planner-inconclusive")
            return
        raise Violation("solvable-problem-not-solved:oversub", f"{name} returned {res.status.name} but the hard goals are reachable", case)
    if res.status == S.SOLVED_OPTIMALLY:
        best = max(gain(s) for s, _ in goal_states)
        final = ref.initial_state()
        for a, args in steps:
            final = ref.apply(final, a, args)
        got = gain(final)
        if got != best:
            bs, bp = max(goal_states, key=lambda t: gain(t[0]))
            raise Violation(
                "optimal-status-suboptimal-gain:oversub",
                f"{name} reports SOLVED_OPTIMALLY with plan {desc} of gain {got}, but {[[a.name, list(map(str, args))] for a, args in bp]} reaches gain {best}",
                case,
            )
        gains = sorted({gain(s) for s, _ in goal_states})
        all_ = sum((Fraction(w) for w in metric.goals.values() if Fraction(w) > 0), Fraction(0))
        ctx.cls("oversub:optimal")
        if best not in (Fraction(0), all_) or len(gains) >= 3:
            ctx.nontriv(case_hash(case), {"kind": kind, "best_gain": str(best), "distinct_gains": len(gains)})
    else:
        ctx.cls(f"oversub:{res.status.name}")


def shard(ctx):
    ctx.run_hypothesis(cases(), lambda case: check(ctx, case), ctx.scale(2400, 24000))


def replay(ctx, case):
    check(ctx, case)
