"""C27 — deordering a valid sequential plan keeps every linearisation valid."""

from __future__ import annotations

from itertools import islice, product

from hypothesis import strategies as st

from harness import gen
from harness.core import Abstain, Violation
from harness.explore import Explorer
from harness.refsim import UNDEF, const_value, freeze, type_objects
from harness.simcmp import normalize_spec, params_fnodes
from unified_planning.model.operators import OperatorKind as OK

PROPERTY = "C27"
TECHNIQUE = "property-based testing; all linearisations of the deordered plan validated with the reference semantics + harness read/write-set ordering predicate"
RULE = (
    "Problems from the seq-full grammar without invariants, trajectory constraints or nested fluents in fluent arguments "
    "(documented rejections of the converter); all valid plans of length 2-4 found by reference enumeration (node cap), built "
    "with distinct ActionInstance objects.  Oracle: convert_to(PARTIAL_ORDER_PLAN) succeeds; every linearisation (all when "
    "<= 120, else the first 120) is valid and reaches the same final state; the node set is exactly the plan's instances; for "
    "every i < j where instance i writes a ground fluent that j reads or writes (or vice versa) there is a path i -> j.  "
    "Non-trivial = plan whose partial order admits >= 2 linearisations; distinct by (problem, plan)."
)
SHARDS = {"quick": 8, "thorough": 16}
PROFILE = gen.Profile(ifuns=False, invariants=False, nested_fluent_args=False, max_objects=3, undefined=True, effect_same_fluent_bias=False, max_fluents=5, max_pre=1, max_eff=2, max_goals=1)


def ground_fluents_read(problem, e, pb, vb, acc):
    """ground fluents syntactically read by e after quantifier expansion (no nested fluents)."""
    t = e.node_type
    if t in (OK.EXISTS, OK.FORALL):
        vs = e.variables()
        doms = [type_objects(problem, v.type) for v in vs]
        for combo in product(*doms):
            vb2 = dict(vb)
            for v, o in zip(vs, combo):
                vb2[(v.name, v.type)] = o
            ground_fluents_read(problem, e.arg(0), pb, vb2, acc)
        return
    if t == OK.FLUENT_EXP:
        args = []
        for a in e.args:
            if a.node_type == OK.PARAM_EXP:
                args.append(pb[a.parameter().name])
            elif a.node_type == OK.VARIABLE_EXP:
                args.append(vb[(a.variable().name, a.variable().type)])
            elif a.is_constant():
                args.append(const_value(a))
            else:
                raise Abstain("nested-term-in-fluent-argument")
        acc.add((e.fluent().name, tuple(args)))
        return
    for a in e.args:
        ground_fluents_read(problem, a, pb, vb, acc)


def rw_sets(problem, ref, a, args):
    pb = ref.binding(a, args)
    reads, writes = set(), set()
    for c in a.preconditions:
        ground_fluents_read(problem, c, pb, {}, reads)
    for eff in a.effects:
        for vb in ref.expand(eff):
            tgt = set()
            ground_fluents_read(problem, eff.fluent, pb, vb, tgt)
            writes |= tgt
            ground_fluents_read(problem, eff.condition, pb, vb, reads)
            ground_fluents_read(problem, eff.value, pb, vb, reads)
            if not eff.is_assignment():
                reads |= tgt
    return reads, writes


def check(ctx, case):
    from unified_planning.exceptions import UPUsageError
    from unified_planning.plans import ActionInstance, PlanKind, SequentialPlan

    spec, b, ref0 = normalize_spec(case["problem"])
    problem, em = b.problem, b.em
    ex = Explorer(problem)
    plans, _ = ex.valid_plans(4, max_nodes=1200, max_plans=30)
    plans = [(s, st_) for s, st_ in plans if len(s) >= 2][:8]
    for steps, states in plans:
        ctx.evaluations += 1
        desc = [[a.name, list(map(str, args))] for a, args in steps]
        ais = [ActionInstance(a, params_fnodes(problem, em, a, args)) for a, args in steps]
        sp = SequentialPlan(ais, b.env)
        try:
            pop = sp.convert_to(PlanKind.PARTIAL_ORDER_PLAN, problem)
        except UPUsageError as e:
            if "fluents inside the parameter of fluents" in str(e):
                raise Abstain("documented-rejection")
            raise Violation(f"convert-exception:UPUsageError", f"{e!r} on {desc}", case, {"plan": desc})
        except Exception as e:
            raise Violation(f"convert-exception:{type(e).__name__}", f"{e!r} on {desc}", case, {"plan": desc})
        adj = pop.get_adjacency_list
        nodes = set(adj)
        if len(nodes) != len(ais) or any(ai not in nodes for ai in ais):
            raise Violation("node-set-differs", f"partial order has {len(nodes)} nodes for plan {desc}", case, {"plan": desc})
        idx = {id(ai): k for k, ai in enumerate(ais)}
        # reachability
        reach = [[False] * len(ais) for _ in ais]
        for u, vs in adj.items():
            for v in vs:
                reach[idx[id(u)]][idx[id(v)]] = True
        n = len(ais)
        for k in range(n):
            for i in range(n):
                if reach[i][k]:
                    for j in range(n):
                        if reach[k][j]:
                            reach[i][j] = True
        try:
            rw = [rw_sets(problem, ex.ref, a, args) for a, args in steps]
        except Abstain as ab:
            ctx.abstain(ab.reason)
            rw = None
        if rw is not None:
            for i in range(n):
                for j in range(i + 1, n):
                    ri, wi = rw[i]
                    rj, wj = rw[j]
                    if (wi & (rj | wj)) or (wj & ri):
                        if not reach[i][j]:
                            shared = sorted(map(str, (wi & (rj | wj)) | (wj & ri)))[:3]
                            kindc = "write-write" if (wi & wj) and not ((wi & rj) or (wj & ri)) else "read-write"
                            raise Violation(
                                f"missing-ordering:{kindc}",
                                f"plan {desc}: steps {i} and {j} conflict on {shared} but the partial order does not order them",
                                case,
                                {"plan": desc},
                            )
        final = freeze(states[-1])
        nlin = 0
        for lin in islice(pop.all_sequential_plans(), 120):
            nlin += 1
            order = [idx[id(ai)] for ai in lin.actions]
            lsteps = [steps[k] for k in order]
            try:
                lstates = ex.execute(lsteps)
                ok = lstates is not None and ex.goal_ok(lstates)
            except Abstain as ab:
                ctx.abstain(ab.reason)
                continue
            if not ok:
                raise Violation(
                    "linearisation-invalid",
                    f"plan {desc} is valid but the linearisation {[desc[k] for k in order]} of its deordering is not",
                    case,
                    {"plan": desc, "order": order},
                )
            if freeze(lstates[-1]) != final:
                raise Violation(
                    "linearisation-different-final-state",
                    f"plan {desc}: linearisation {order} ends in a different state",
                    case,
                    {"plan": desc, "order": order},
                )
        ctx.cls("linearisations>=2" if nlin >= 2 else "linearisations=1")
        if nlin >= 2:
            ctx.nontriv([spec_hash(spec), desc])


def spec_hash(spec):
    from harness.core import case_hash

    return case_hash(spec)


def shard(ctx):
    def oracle(case):
        ctx.evaluations -= 1
        check(ctx, case)

    ctx.run_hypothesis(gen.problems(PROFILE).map(lambda p: {"problem": p}), oracle, ctx.scale(18000, 90000))


def replay(ctx, case):
    check(ctx, case)
