"""C09 — the declared resulting problem kind over-approximates the compiled problem's kind."""

from __future__ import annotations

from hypothesis import strategies as st

from harness import comp, gen
from harness.comp import Compiled, compiler_class
from harness.core import Abstain, Violation
from harness.simcmp import normalize_spec

PROPERTY = "C09"
TECHNIQUE = "property-based testing; containment of the compiled problem's computed kind in Compiler.resulting_problem_kind, and factory-selected pipelines run end to end"
RULE = (
    "(a) For each of the 10 compilers (and each stage of 6 pipelines) a problem inside the supported kind is compiled and "
    "result.problem.kind <= resulting_problem_kind(input kind) is checked on clones (the replay names the extra features).  "
    "(b) For ordered subsets (size 1-3) of the CompilationKinds that have a registered compiler, "
    "factory.Compiler(problem_kind, compilation_kinds) either raises UPNoSuitableEngineAvailableException or returns a "
    "pipeline whose compile(problem) does not fail because a stage rejects the kind of its input.  Non-trivial = problems whose "
    "compiled kind differs from the input kind, and factory pipelines of >= 2 stages that all ran; distinct by (problem, "
    "compiler / kinds)."
)
SHARDS = {"quick": 16, "thorough": 16}
CASE_TIMEOUT_S = 12  # CPU seconds per case; DNF / powerset compilations that explode are inconclusive, not judged

FACTORY_KINDS = [
    "GROUNDING", "CONDITIONAL_EFFECTS_REMOVING", "DISJUNCTIVE_CONDITIONS_REMOVING", "NEGATIVE_CONDITIONS_REMOVING",
    "QUANTIFIERS_REMOVING", "USERTYPE_FLUENTS_REMOVING", "BOUNDED_TYPES_REMOVING", "STATE_INVARIANTS_REMOVING",
    "UNDEFINED_INITIAL_NUMERIC_REMOVING",
]


@st.composite
def cases(draw):
    if draw(st.integers(0, 3)) == 0:
        n = draw(st.integers(1, 3))
        kinds = draw(st.lists(st.sampled_from(FACTORY_KINDS), min_size=n, max_size=n, unique=True))
        p = gen.Gen(draw, gen.Profile(ifuns=False, undefined=False)).problem()
        return {"factory_kinds": kinds, "problem": p}
    return draw(comp.cases())


def check_factory(ctx, case):
    from unified_planning.engines import CompilationKind
    from unified_planning.exceptions import UPNoSuitableEngineAvailableException, UPUsageError

    spec, b, ref = normalize_spec(case["problem"])
    problem = b.problem
    kinds = [CompilationKind[k] for k in case["factory_kinds"]]
    label = "+".join(case["factory_kinds"])
    try:
        pipeline = b.env.factory.Compiler(problem_kind=problem.kind, compilation_kinds=kinds)
    except UPNoSuitableEngineAvailableException:
        ctx.cls("factory:no-engine")
        return
    except Exception as e:
        raise Violation(f"factory-exception:{type(e).__name__}", f"factory.Compiler({label}) raised {e!r}", case)
    try:
        with pipeline as comp_:
            res = comp_.compile(problem)
    except UPUsageError as e:
        if "cannot establish whether" in str(e) or "cannot handle" in str(e) or "not support" in str(e):
            raise Violation(
                "factory-pipeline-rejects-intermediate-kind",
                f"the pipeline selected by the factory for {label} failed on an intermediate problem: {str(e)[:300]}",
                case,
            )
        ctx.cls("factory:compile-usage-error")
        return
    except Exception as e:
        # other compile crashes are C08's subject
        ctx.cls(f"factory:compile-raised:{type(e).__name__}")
        return
    ctx.cls("factory:ran")
    if len(kinds) >= 2:
        ctx.nontriv([label, spec_hash(spec)])


def check(ctx, case):
    if "factory_kinds" in case:
        return check_factory(ctx, case)
    c = Compiled(case)
    label = "+".join(case["compilers"])
    try:
        ok = c.compile()
    except Exception as e:
        ctx.cls(f"compile-raised:{label}:{type(e).__name__}")
        if not c.results:
            return
        ok = True
    if not ok and not c.results:
        ctx.cls(f"unsupported:{label}")
        return
    for i, res in enumerate(c.results):
        name = case["compilers"][i]
        cls, ck = compiler_class(name)
        in_kind = c.stage_inputs[i].kind
        try:
            declared = cls.resulting_problem_kind(in_kind.clone(), ck)
        except Exception as e:
            raise Violation(f"resulting_problem_kind-exception:{name}:{type(e).__name__}", f"{name}.resulting_problem_kind raised {e!r} for kind features {sorted(in_kind.features)}", case)
        out_kind = res.problem.kind
        if not (out_kind.clone() <= declared.clone()):
            extra = sorted(out_kind.features - declared.features)
            def general(f):
                if f == "SIMPLE_NUMERIC_PLANNING":
                    return "GENERAL_NUMERIC_PLANNING"
                if f.startswith("STATIC_FLUENTS_IN_"):
                    return f[len("STATIC_"):]
                return None

            # two root causes can meet in one input: refined features (known finding of their own) are set aside
            # before the remaining ones are attributed
            rest = [f for f in extra if general(f) not in declared.features]
            if not rest:
                raise Violation(
                    "kind-not-contained:refinement-feature",
                    f"{name}: the compiled problem has the refined features {extra} (simplification made expressions linear / fluents static) while the declared resulting kind only has their general counterparts",
                    case,
                )
            COND = {"NEGATIVE_CONDITIONS", "DISJUNCTIVE_CONDITIONS", "EQUALITIES", "EXISTENTIAL_CONDITIONS", "UNIVERSAL_CONDITIONS"}
            extra = rest
            if name == "usertype_fluents" and set(extra) <= COND and _nonconst_bool_value(case["problem"]):
                raise Violation(
                    f"kind-not-contained:{name}:bool-value-becomes-condition",
                    f"{name}: the value of a Boolean assignment became an effect condition, bringing {extra} which the input kind (hence the declared kind) does not track",
                    case,
                )
            raise Violation(
                f"kind-not-contained:{name}:" + ",".join(extra[:3]),
                f"{name}: compiled problem has features {extra} that the declared resulting kind lacks",
                case,
            )
        ctx.cls(f"checked:{name}")
        if out_kind.features != in_kind.features:
            ctx.nontriv([name, spec_hash(c.spec)])


def _nonconst_bool_value(spec):
    btypes = {f["name"] for f in spec["fluents"] if f["type"] == "bool"}
    return any(e["fl"][1] in btypes and e["val"][0] != "b" for a in spec["actions"] for e in a["eff"])


def spec_hash(spec):
    from harness.core import case_hash

    return case_hash(spec)


def shard(ctx):
    ctx.run_hypothesis(cases(), lambda case: check(ctx, case), ctx.scale(9000, 60000))


def replay(ctx, case):
    check(ctx, case)
