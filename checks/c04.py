"""C04 — time-triggered and sequential validation agree on instantaneous plans."""

from __future__ import annotations

from fractions import Fraction

from hypothesis import strategies as st

from harness import gen
from harness.core import Abstain, Violation
from harness.refsim import freeze
from harness.simcmp import normalize_spec, params_fnodes

PROPERTY = "C04"
TECHNIQUE = "property-based differential: TimeTriggeredPlanValidator vs SequentialPlanValidator on the same instantaneous plan (reference semantics only used to label the odd one out)"
RULE = (
    "Instantaneous problems of the C01 grammar inside both validators' supported kinds (no timed effects / goals, initial state "
    "satisfying bounds and invariants by construction); plans of length <= 4: valid ones from reference BFS, 'boundary' plans whose last step the "
    "reference rejects for a reason other than a precondition (bound, invariant, conflict, undefined read), random instance "
    "sequences and mutations; each scheduled at strictly increasing rational start times (start at 0, tiny and large gaps).  "
    "Oracle: TT status == VALID iff sequential status == VALID.  Non-trivial = plan where some prefix violates a bound or an "
    "invariant (intermediate or final state), hits a conflict or reads an undefined fluent, or a valid plan of length >= 2; "
    "distinct by (problem, plan, times)."
)
SHARDS = {"quick": 8, "thorough": 16}
PROFILE = gen.Profile(ifuns=False)


@st.composite
def cases(draw):
    g = gen.Gen(draw, PROFILE)
    p = g.problem()
    plans = [[[g.i(0, 20), g.i(0, 50)] for _ in range(g.i(1, 4))] for _ in range(g.i(1, 3))]
    gaps = [g.pick(["0", "1", "1/1000", "5/2", "1/3", "7"]) for _ in range(6)]
    return {"problem": p, "plans": plans, "gaps": gaps, "start_at_zero": g.b(0.4), "mut": g.i(0, 1000)}


def check(ctx, case):
    from unified_planning.engines import SequentialPlanValidator, ValidationResultStatus
    from unified_planning.engines.plan_validator import TimeTriggeredPlanValidator
    from unified_planning.plans import ActionInstance, SequentialPlan, TimeTriggeredPlan

    spec, b, ref = normalize_spec(case["problem"])
    problem, em = b.problem, b.em
    if not TimeTriggeredPlanValidator.supports(problem.kind) or not SequentialPlanValidator.supports(problem.kind):
        from harness.core import HarnessError

        raise HarnessError(f"profile left the supported kinds: {problem.kind.features - TimeTriggeredPlanValidator.supported_kind().features}")
    instances = [(a, args) for a in problem.actions for args in ref.instances(a)]
    if not instances:
        return
    s0 = ref.initial_state()
    found = []
    boundary = []
    frontier = [(s0, [])]
    seen = {freeze(s0)}
    for level in range(3):
        nxt = []
        for s, path in frontier:
            for idx, (a, args) in enumerate(instances):
                try:
                    s2, why = ref.try_apply(s, a, args)
                except Abstain:
                    continue
                if s2 is None:
                    # plans that fail for a reason other than a precondition (bound, invariant, conflict)
                    # are exactly where the two validators walk different code: keep some as candidates
                    if why != "precondition" and len(boundary) < 4:
                        boundary.append(path + [idx])
                    continue
                p2 = path + [idx]
                try:
                    if ref.goal(s2) and len(found) < 4:
                        found.append(p2)
                except Abstain:
                    pass
                k = freeze(s2)
                if k not in seen and len(seen) < 40:
                    seen.add(k)
                    nxt.append((s2, p2))
        frontier = nxt
    plans = list(found[:3]) + boundary + found[3:]
    for pl in case["plans"]:
        plans.append([(i * 7 + j) % len(instances) for i, j in pl])
    m = case["mut"]
    for f in found[:2]:
        if len(f) >= 2:
            k = m % (len(f) - 1)
            plans.append(f[:k] + [f[k + 1], f[k]] + f[k + 2 :])
        plans.append(f + [f[m % len(f)]])
    times = []
    t = Fraction(0) if case["start_at_zero"] else Fraction(case["gaps"][0]) + Fraction(1, 7)
    for gidx in range(8):
        times.append(t)
        gap = Fraction(case["gaps"][gidx % len(case["gaps"])])
        t = t + (gap if gap > 0 else Fraction(1, 10**6))
    seqv = SequentialPlanValidator(environment=b.env)
    ttv = TimeTriggeredPlanValidator(environment=b.env)
    done = set()
    for plan in plans[:12]:
        if tuple(plan) in done or not plan:
            continue
        done.add(tuple(plan))
        steps = [instances[i] for i in plan]
        desc = [[a.name, list(map(str, args))] for a, args in steps]
        ais = [ActionInstance(a, params_fnodes(problem, em, a, args)) for a, args in steps]
        ctx.evaluations += 1
        try:
            rs = seqv.validate(problem, SequentialPlan(ais, b.env))
        except Exception as e:
            raise Violation(f"sequential-validate-exception:{type(e).__name__}", f"{e!r} on {desc}", case, {"plan": desc})
        try:
            rt = ttv.validate(problem, TimeTriggeredPlan([(times[k], ai, None) for k, ai in enumerate(ais)], b.env))
        except Exception as e:
            raise Violation(f"tt-validate-exception:{type(e).__name__}", f"{e!r} on {desc} at {list(map(str, times[:len(ais)]))}", case, {"plan": desc})
        vs = rs.status == ValidationResultStatus.VALID
        vt = rt.status == ValidationResultStatus.VALID
        # label with the reference semantics
        label, flags = "?", set()
        try:
            s = s0
            label = "valid"
            for k, (a, args) in enumerate(steps):
                info = {}
                s2, why = ref.try_apply(s, a, args, info)
                flags |= {f for f, v in info.items() if v}
                if s2 is None:
                    label = f"inapplicable:{why}" + (":last-step" if k == len(steps) - 1 else "")
                    break
                s = s2
            if label == "valid" and not ref.goal(s):
                label = "goals"
        except Abstain as ab:
            label = "abstain:" + ab.reason
        if vs != vt:
            if label.startswith("abstain"):
                ctx.abstain(label)
                continue
            raise Violation(
                f"validators-disagree:{label}",
                f"plan {desc} at times {list(map(str, times[:len(ais)]))}: sequential={rs.status.name} time-triggered={rt.status.name}; reference says {label}",
                case,
                {"plan": desc},
            )
        ctx.cls(label.split(":")[0] + (":" + label.split(":")[1] if label.startswith("inapplicable") else ""))
        if (label == "valid" and len(steps) >= 2) or any(x in label for x in ("bound", "invariant", "conflict", "undefined")) or "undef_read" in flags:
            ctx.nontriv([spec_hash(spec), plan, list(map(str, times[: len(ais)]))])


def spec_hash(spec):
    from harness.core import case_hash

    return case_hash(spec)


def shard(ctx):
    def oracle(case):
        ctx.evaluations -= 1
        check(ctx, case)

    ctx.run_hypothesis(cases(), oracle, ctx.scale(9000, 60000))


def replay(ctx, case):
    check(ctx, case)
