"""C10 — the problem kind reports every feature the problem uses."""

from __future__ import annotations

from hypothesis import strategies as st

from harness import gen
from harness.build import build
from harness.core import Abstain, Violation
from unified_planning.model.operators import OperatorKind as OK

PROPERTY = "C10"
TECHNIQUE = "property-based testing against an independent syntactic feature extractor (own tree walk over the stored model, must-have features only)"
RULE = (
    "Problems from the full sequential grammar (C01) and the temporal grammar (C05) with an optional quality metric, plus the "
    "bundled example problems; an independent walker over the stored model computes the features every reading of the "
    "documented feature table implies (typing; fluent / parameter types; bounds of used numeric fluents; Not/Or/Implies/"
    "Equals/Exists/Forall in any condition position: preconditions, durative conditions, effect conditions, goals, timed "
    "goals, trajectory constraints, oversubscription goals; conditional / forall / increase / decrease effects; (static) "
    "fluents in Boolean / numeric / object assignment values; durations: inequalities, fluents, int / real type; "
    "intermediate timings; timed effects / goals; invariants vs trajectory constraints; metric kinds; undefined initial "
    "values) and checks must_have <= problem.kind.features.  Non-trivial = problem with >= 3 distinct must-have features of "
    "which one is planted outside action preconditions; distinct by hash of the spec."
)
SHARDS = {"quick": 8, "thorough": 16}

COND_OPS = {
    OK.NOT: "NEGATIVE_CONDITIONS", OK.OR: "DISJUNCTIVE_CONDITIONS", OK.IMPLIES: "DISJUNCTIVE_CONDITIONS",
    OK.EQUALS: "EQUALITIES", OK.EXISTS: "EXISTENTIAL_CONDITIONS", OK.FORALL: "UNIVERSAL_CONDITIONS",
    OK.INTERPRETED_FUNCTION_EXP: "INTERPRETED_FUNCTIONS_IN_CONDITIONS",
}


def ops_in(e, acc):
    acc.add(e.node_type)
    for a in e.args:
        ops_in(a, acc)
    return acc


def fluents_in(e, acc):
    if e.is_fluent_exp():
        acc.add(e.fluent())
    for a in e.args:
        fluents_in(a, acc)
    return acc


def must_have(problem):
    from unified_planning.model import DurativeAction

    feats = {}

    def need(f, where):
        feats.setdefault(f, where)

    def cond(e, where):
        ops = ops_in(e, set())
        for op, f in COND_OPS.items():
            if op in ops:
                need(f, where)
        for fl in fluents_in(e, set()):
            used_fluent(fl, where)

    def typ(t, where):
        if t.is_user_type():
            need("FLAT_TYPING", where)
            if t.father is not None:
                need("HIERARCHICAL_TYPING", where)

    def used_fluent(f, where):
        t = f.type
        if t.is_int_type():
            need("INT_FLUENTS", where)
        elif t.is_real_type():
            need("REAL_FLUENTS", where)
        elif t.is_user_type():
            need("OBJECT_FLUENTS", where)
        if (t.is_int_type() or t.is_real_type()) and (t.lower_bound is not None or t.upper_bound is not None):
            need("BOUNDED_TYPES", where)

    targets = set()
    all_effects = []
    for a in problem.actions:
        if isinstance(a, DurativeAction):
            for t, effs in a.effects.items():
                all_effects += [(e, f"effect of {a.name}") for e in effs]
        else:
            all_effects += [(e, f"effect of {a.name}") for e in a.effects]
    for t, effs in problem.timed_effects.items():
        all_effects += [(e, "timed effect") for e in effs]
    for e, _ in all_effects:
        targets.add(e.fluent.fluent())

    for f in problem.fluents:
        typ(f.type, f"fluent {f.name}")
        for p in f.signature:
            typ(p.type, f"fluent {f.name}")
            if p.type.is_bool_type():
                need("BOOL_FLUENT_PARAMETERS", f"fluent {f.name}")
            if p.type.is_int_type():
                need("BOUNDED_INT_FLUENT_PARAMETERS", f"fluent {f.name}")
    for o in problem.all_objects:
        typ(o.type, f"object {o.name}")
    for e, where in all_effects:
        used_fluent(e.fluent.fluent(), where)
        if e.is_conditional():
            need("CONDITIONAL_EFFECTS", where)
            cond(e.condition, where + " (condition)")
        if e.is_forall():
            need("FORALL_EFFECTS", where)
            for v in e.forall:
                typ(v.type, where)
        if e.is_increase():
            need("INCREASE_EFFECTS", where)
        if e.is_decrease():
            need("DECREASE_EFFECTS", where)
        vf = fluents_in(e.value, set())
        tgt = e.fluent.type
        kind = "BOOLEAN" if tgt.is_bool_type() else "OBJECT" if tgt.is_user_type() else "NUMERIC"
        if any(f in targets for f in vf):
            need(f"FLUENTS_IN_{kind}_ASSIGNMENTS", where + " (value)")
        if any(f not in targets for f in vf):
            need(f"STATIC_FLUENTS_IN_{kind}_ASSIGNMENTS", where + " (value)")
        if OK.INTERPRETED_FUNCTION_EXP in ops_in(e.value, set()):
            need(f"INTERPRETED_FUNCTIONS_IN_{kind}_ASSIGNMENTS", where + " (value)")
    for a in problem.actions:
        need("ACTION_BASED", "actions")
        for p in a.parameters:
            typ(p.type, f"action {a.name}")
            t = p.type
            if t.is_bool_type():
                need("BOOL_ACTION_PARAMETERS", f"action {a.name}")
            elif t.is_int_type():
                need("BOUNDED_INT_ACTION_PARAMETERS" if (t.lower_bound is not None and t.upper_bound is not None) else "UNBOUNDED_INT_ACTION_PARAMETERS", f"action {a.name}")
            elif t.is_real_type():
                need("REAL_ACTION_PARAMETERS", f"action {a.name}")
        if isinstance(a, DurativeAction):
            need("CONTINUOUS_TIME", f"durative action {a.name}")
            d = a.duration
            if d.lower != d.upper or d.is_left_open() or d.is_right_open():
                need("DURATION_INEQUALITIES", f"duration of {a.name}")
            for b in (d.lower, d.upper):
                df = fluents_in(b, set())
                if any(f in targets for f in df):
                    need("FLUENTS_IN_DURATIONS", f"duration of {a.name}")
                if any(f not in targets for f in df):
                    need("STATIC_FLUENTS_IN_DURATIONS", f"duration of {a.name}")
                need("REAL_TYPE_DURATIONS" if b.type.is_real_type() else "INT_TYPE_DURATIONS", f"duration of {a.name}")
            for iv, cs in a.conditions.items():
                for t in (iv.lower, iv.upper):
                    if (t.is_from_start() and t.delay > 0) or (t.is_from_end() and t.delay < 0):
                        need("INTERMEDIATE_CONDITIONS_AND_EFFECTS", f"condition interval of {a.name}")
                for c in cs:
                    cond(c, f"durative condition of {a.name}")
            for t in a.effects:
                if (t.is_from_start() and t.delay > 0) or (t.is_from_end() and t.delay < 0):
                    need("INTERMEDIATE_CONDITIONS_AND_EFFECTS", f"effect timing of {a.name}")
        else:
            for c in a.preconditions:
                cond(c, f"precondition of {a.name}")
    for g in problem.goals:
        cond(g, "goal")
    if problem.timed_effects:
        need("TIMED_EFFECTS", "timed effects")
    if problem.timed_goals:
        need("TIMED_GOALS", "timed goals")
        for iv, gs in problem.timed_goals.items():
            for g in gs:
                cond(g, "timed goal")
    for tc in problem.trajectory_constraints:
        if tc.is_always():
            need("STATE_INVARIANTS", "trajectory constraint")
        elif tc.node_type in (OK.SOMETIME, OK.SOMETIME_BEFORE, OK.SOMETIME_AFTER, OK.AT_MOST_ONCE):
            need("TRAJECTORY_CONSTRAINTS", "trajectory constraint")
        for a in tc.args:
            cond(a, "trajectory constraint")
    for m in problem.quality_metrics:
        if m.is_minimize_action_costs():
            need("ACTIONS_COST", "metric")
            for a, c in m.costs.items():
                if c is None:
                    continue
                cf = fluents_in(c, set())
                if any(f in targets for f in cf):
                    need("FLUENTS_IN_ACTIONS_COST", "metric")
                if any(f not in targets for f in cf):
                    need("STATIC_FLUENTS_IN_ACTIONS_COST", "metric")
        elif m.is_minimize_sequential_plan_length():
            need("PLAN_LENGTH", "metric")
        elif m.is_minimize_expression_on_final_state() or m.is_maximize_expression_on_final_state():
            need("FINAL_VALUE", "metric")
        elif m.is_oversubscription():
            need("OVERSUBSCRIPTION", "metric")
            for g in m.goals:
                cond(g, "oversubscription goal")
        elif m.is_minimize_makespan():
            need("MAKESPAN", "metric")
    # undefined initial values
    from harness.refsim import UNDEF, initial_state

    try:
        s0 = initial_state(problem)
        ft = {f.name: f.type for f in problem.fluents}
        for (name, args), v in s0.items():
            if v is UNDEF:
                t = ft[name]
                need("UNDEFINED_INITIAL_NUMERIC" if (t.is_int_type() or t.is_real_type()) else "UNDEFINED_INITIAL_SYMBOLIC", f"initial value of {name}")
    except Exception:
        pass
    return feats


class MAView:
    """the attributes must_have() reads, for a MultiAgentProblem (actions and fluents of every agent and of the
    environment; no timed items / trajectory constraints / metrics there)"""

    def __init__(self, p):
        self.actions = [a for ag in p.agents for a in ag.actions]
        self.fluents = list(p.ma_environment.fluents) + [f for ag in p.agents for f in ag.fluents]
        self.all_objects = p.all_objects
        self.goals = p.goals
        self.timed_effects, self.timed_goals = {}, {}
        self.trajectory_constraints, self.quality_metrics = [], []

    def __getattr__(self, name):  # anything else (initial-state probing): not modelled for MA
        raise AttributeError(name)


def build_ma(spec):
    """the generated single-agent spec as a MultiAgentProblem: its fluents become environment fluents, its
    actions are split over two agents, each agent also owns a private Boolean fluent that its actions write"""
    from unified_planning.model.multi_agent import Agent, MultiAgentProblem

    b = build(dict(spec, actions=[], goals=[], traj=[], metric=None))
    mp = MultiAgentProblem("ma", b.env)
    for o in b.problem.all_objects:
        mp.add_object(o)
    for f in b.problem.fluents:
        d = b.problem.fluents_defaults.get(f)
        if d is not None:
            mp.ma_environment.add_fluent(f, default_initial_value=d)
        else:
            mp.ma_environment.add_fluent(f)
    agents = [Agent("ag0", mp), Agent("ag1", mp)]
    for ag in agents:
        ag.add_fluent("mine", b.tm.BoolType(), default_initial_value=False)
    for i, a in enumerate(spec["actions"]):
        if "dur" in a:
            continue
        act = b.make_action(a)
        agents[i % 2].add_action(act)
    for ag in agents:
        mp.add_agent(ag)
    for g in spec["goals"]:
        mp.add_goal(b.expr(g))
    return mp


@st.composite
def cases(draw):
    k = draw(st.integers(0, 3))
    if k == 3:
        return {"ma": True, "problem": gen.Gen(draw, gen.Profile(ifuns=False, traj=False, invariants=False, undefined=False, int_params=True, max_eff=3)).problem()}
    if k == 0:
        from checks.c03 import cases as c03cases

        return {"problem": draw(c03cases())["problem"]}
    if k == 1:
        return {"problem": gen.Gen(draw, gen.Profile(ifuns=True, traj=True, int_params=True, bool_fluent_params=True)).problem()}
    g = gen.TGen(draw, gen.Profile(ifuns=False, max_fluents=4, max_objects=3, max_arity=1, nested_fluent_args=False, division=False, int_params=True))
    p = g.temporal_problem()
    return {"problem": p}


def check(ctx, case, problem=None):
    if problem is None and case.get("ma"):
        problem = build_ma(case["problem"])
        need = must_have(MAView(problem))
        # class-specific names of the same notions
        need = {f: w for f, w in need.items() if not f.startswith("UNDEFINED_INITIAL") and f != "ACTION_BASED"}
        need["ACTION_BASED_MULTI_AGENT"] = "problem class"
    else:
        if problem is None:
            b = build(case["problem"])
            problem = b.problem
        need = must_have(problem)
    try:
        kind = problem.kind
    except Exception as e:
        raise Violation(f"kind-exception:{type(e).__name__}", repr(e), case)
    missing = sorted(f for f in need if f not in kind.features)
    if missing:
        f = missing[0]
        raise Violation(f"missing-feature:{f}", f"the problem uses {f} ({need[f]}) but problem.kind lacks it; all missing: {missing}", case)
    for f in need:
        ctx.cls(f)
    outside = any(not w.startswith("precondition") for w in need.values())
    if len(need) >= 3 and outside:
        ctx.nontriv(case if "problem" in case else case["example"])


def shard(ctx):
    # bundled examples (first shard only)
    if ctx.shard == 0:
        try:
            from unified_planning.test.examples import get_example_problems

            for name, ex in sorted(get_example_problems().items()):
                p = ex.problem
                if type(p).__name__ != "Problem":
                    continue
                ctx.guard(lambda c: check(ctx, c, p), {"example": name})
            ctx.extra["example_problems_checked"] = True
        except ImportError:
            ctx.extra["example_problems_checked"] = False
    ctx.run_hypothesis(cases(), lambda case: check(ctx, case), ctx.scale(1500, 40000))


def replay(ctx, case):
    if "example" in case:
        from unified_planning.test.examples import get_example_problems

        return check(ctx, case, get_example_problems()[case["example"]].problem)
    check(ctx, case)
