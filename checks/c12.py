"""C12 — NNF and DNF conversions are equivalent and in normal form (truth tables)."""

from __future__ import annotations

from harness import gen
from harness.core import Abstain, Violation
from harness.exprcase import build_case, interpretations, signature_and_exprs
from harness.refsim import UNDEF, Evaluator
from unified_planning.model.operators import OperatorKind as OK

PROPERTY = "C12"
TECHNIQUE = "property-based testing; truth-table equivalence against the reference evaluator + syntactic normal-form predicate"
RULE = (
    "Boolean expressions (depth <= 4, quantifiers over user types included) over Boolean / object / numeric fluents and parameters with "
    "Not/And/Or/Implies/Iff at any depth, equalities, comparisons fluent-vs-constant, fluent-vs-fluent and constant-only "
    "atoms (1 <= 2).  Interpretations: Boolean and object leaves exhaustively, numeric leaves over {c-1,c,c+1 | c constant} "
    "plus a grid (all combinations when <= 256, else 96 sampled).  Non-trivial = formula with >= 2 distinct atoms whose DNF "
    "has >= 2 disjuncts, or containing a constant-only atom / a sub-conjunction that simplifies to a constant; distinct "
    "by hash of the expression spec."
)
SHARDS = {"quick": 8, "thorough": 16}
PROFILE = gen.Profile(
    quantifiers=True, ifuns=False, const_atoms=True, max_fluents=5, max_arity=1, bounded=False, division=False,
    nested_fluent_args=False, fluent_kinds=["bool", "bool", "bool", "int", "real", "obj"], max_objects=3,
)

ATOMS = {OK.FLUENT_EXP, OK.EQUALS, OK.LE, OK.LT, OK.BOOL_CONSTANT, OK.PARAM_EXP, OK.VARIABLE_EXP, OK.INTERPRETED_FUNCTION_EXP, OK.EXISTS, OK.FORALL, OK.DOT}


def is_literal(n):
    if n.node_type == OK.NOT:
        return n.arg(0).node_type in ATOMS
    return n.node_type in ATOMS


def is_nnf(n):
    t = n.node_type
    if t in (OK.AND, OK.OR):
        return all(is_nnf(a) for a in n.args)
    if t in (OK.EXISTS, OK.FORALL):
        return is_nnf(n.arg(0))  # negations are pushed through quantifiers
    if t == OK.NOT and n.arg(0).node_type in (OK.EXISTS, OK.FORALL):
        return False
    return is_literal(n)


def is_dnf(n):
    def conj(c):
        if c.node_type == OK.AND:
            return all(is_literal(a) for a in c.args)
        return is_literal(c)

    if n.node_type == OK.OR:
        return all(conj(a) for a in n.args)
    return conj(n)


def count_atoms(n, acc):
    if n.node_type in (OK.AND, OK.OR, OK.NOT, OK.IMPLIES, OK.IFF):
        for a in n.args:
            count_atoms(a, acc)
    else:
        acc.add(n)


def has_const_atom(spec):
    if isinstance(spec, list) and spec:
        if spec[0] in ("<=", "<", ">=", ">", "=") and all(isinstance(a, list) and a[0] in ("i", "r") for a in spec[1:]):
            return True
        return any(has_const_atom(s) for s in spec[1:])
    return False


def oracle_factory(ctx):
    from unified_planning.model.walkers import Dnf, Nnf

    def oracle(case):
        b = build_case(case)
        e = b.expr(case["bool"][0])
        try:
            nnf = Nnf(b.env).get_nnf_expression(e)
        except Exception as ex:
            raise Violation(f"nnf-exception:{type(ex).__name__}", repr(ex), case)
        try:
            dnf = Dnf(b.env).get_dnf_expression(e)
        except Exception as ex:
            raise Violation(f"dnf-exception:{type(ex).__name__}", repr(ex), case)
        if not is_nnf(nnf):
            raise Violation("nnf-shape", f"NNF of {e} is {nnf}", case)
        has_q = _has_quantifier(case["bool"][0])
        if not has_q and not is_dnf(dnf):
            # C12's domain has no quantifiers; with them (treated as atoms by Dnf) only equivalence is checked
            raise Violation("dnf-shape", f"DNF of {e} is {dnf}", case)
        E = Evaluator(b.problem)
        n = 0
        for state, pb, vb in interpretations(b, case, case["bool"], 96):
            try:
                v0 = E.ev(e, state, pb, vb)[0]
                v1 = E.ev(nnf, state, pb, vb)[0]
                v2 = E.ev(dnf, state, pb, vb)[0]
            except Abstain:
                continue
            n += 1
            if v1 != v0:
                raise Violation("nnf-not-equivalent", f"{e} = {v0} but NNF {nnf} = {v1} under {fmt(state, pb, vb)}", case)
            if v2 != v0:
                kind = "dnf-not-equivalent"
                raise Violation(kind, f"{e} = {v0} but DNF {dnf} = {v2} under {fmt(state, pb, vb)}", case)
        atoms = set()
        count_atoms(e, atoms)
        ndisj = len(dnf.args) if dnf.node_type == OK.OR else 1
        const_atom = has_const_atom(case["bool"][0])
        ctx.cls(f"disjuncts>=2" if ndisj >= 2 else "disjuncts<2")
        if const_atom:
            ctx.cls("const_atom")
        if dnf.is_bool_constant():
            ctx.cls("dnf_constant")
        if n and ((len(atoms) >= 2 and ndisj >= 2) or const_atom or dnf.is_bool_constant()):
            ctx.nontriv(case["bool"][0], {"expr": case["bool"][0], "dnf": str(dnf)})

    return oracle


def _has_quantifier(spec):
    if isinstance(spec, list) and spec:
        return spec[0] in ("exists", "forall") or any(_has_quantifier(x) for x in spec[1:])
    return False


def fmt(state, pb, vb):
    return {"state": {f"{k[0]}{list(k[1])}": str(v) for k, v in state.items()}, "params": {k: str(v) for k, v in pb.items()}, "vars": {k[0]: v for k, v in vb.items()}}


def shard(ctx):
    strat = signature_and_exprs(PROFILE, n_bool=1, depth=4)
    ctx.run_hypothesis(strat, oracle_factory(ctx), ctx.scale(4000, 150000))


def replay(ctx, case):
    oracle_factory(ctx)(case)
