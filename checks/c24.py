"""C24 — effect conflict detection is order-independent and exception-safe.

Finite domain enumerated completely (all multisets of <=3 items (quick) / <=4 (thorough)
from a pool of effect / simulated-effect insertions, all permutations, three containers),
plus Hypothesis-generated larger collections with sampled permutations.  Metamorphic,
model-free oracle.
"""

from __future__ import annotations

from itertools import combinations_with_replacement, permutations

from hypothesis import strategies as st

from harness.core import Violation

PROPERTY = "C24"
TECHNIQUE = "exhaustive enumeration of small insertion multisets x all permutations + generated larger ones; metamorphic oracle (order independence, replay without rejected calls)"
RULE = (
    "Pool of 20 insertions over fluents x,y (real), b (bool), o (object), u(T) (assign constants 1/2/Int-vs-Real 1/fluent, "
    "increase, decrease, conditional variants, forall variants, simulated effects over {x},{b},{x,b},{y}); every multiset of "
    "size <=3 (quick) / <=4 (thorough), every distinct permutation, on InstantaneousAction, one DurativeAction timing and "
    "Problem timed effects (no simulated effects there), plus the DurativeAction container with the time of each "
    "insertion given alternately in its two equivalent forms (Timing / bare Timepoint; Problem.add_timed_effect is typed Timing only).  Checks: (a) 'some insertion raised UPConflictingEffectsException' "
    "is permutation-invariant, (b) each insertion's verdict equals its verdict in a fresh container holding only the "
    "previously *accepted* insertions, (c) a rejected insertion leaves effects / simulated effect unchanged.  "
    "Non-trivial = multiset with >=2 items on one ground fluent or an effect on a simulated fluent; distinct by multiset."
)
SHARDS = {"quick": 8, "thorough": 16}

NPOOL = 20
SIM_ITEMS = {16, 17, 18, 19}
FLUENT_OF = {0: "x", 1: "x", 2: "x", 3: "x", 4: "x", 5: "x", 6: "x", 7: "x", 8: "b", 9: "b", 10: "o", 11: "o", 12: "u", 13: "u", 14: "u", 15: "u"}
SIM_FLUENTS = {16: {"x"}, 17: {"b"}, 18: {"x", "b"}, 19: {"y"}}


class World:
    def __init__(self):
        from unified_planning.environment import Environment
        from unified_planning.model import Fluent, Object, Problem, Variable

        self.env = env = Environment()
        tm, em = env.type_manager, env.expression_manager
        self.em = em
        T = tm.UserType("T")
        self.T = T
        self.x = Fluent("x", tm.RealType(), environment=env)
        self.y = Fluent("y", tm.RealType(), environment=env)
        self.b = Fluent("b", tm.BoolType(), environment=env)
        self.o = Fluent("o", T, environment=env)
        self.u = Fluent("u", tm.RealType(), environment=env, k=T)
        self.o1, self.o2 = Object("o1", T, env), Object("o2", T, env)
        self.v = Variable("v", T, env)

    def sim(self, names):
        from unified_planning.model import SimulatedEffect

        fl = {"x": self.x, "b": self.b, "y": self.y}
        fs = [self.em.FluentExp(fl[n]) for n in sorted(names)]
        return SimulatedEffect(fs, _SIMFUN)

    def item(self, i):
        """(method kind, args...)"""
        from fractions import Fraction

        em = self.em
        x, y, b, o = (em.FluentExp(f) for f in (self.x, self.y, self.b, self.o))
        uv = em.FluentExp(self.u, (em.VariableExp(self.v),))
        u1 = em.FluentExp(self.u, (em.ObjectExp(self.o1),))
        T_ = em.TRUE()
        table = {
            0: ("assign", x, em.Int(1), T_, ()),
            1: ("assign", x, em.Int(2), T_, ()),
            2: ("assign", x, y, T_, ()),
            3: ("assign", x, em.Real(Fraction(1)), T_, ()),
            4: ("inc", x, em.Int(1), T_, ()),
            5: ("dec", x, em.Int(1), T_, ()),
            6: ("assign", x, em.Int(2), b, ()),
            7: ("inc", x, em.Int(1), b, ()),
            8: ("assign", b, em.TRUE(), T_, ()),
            9: ("assign", b, em.FALSE(), T_, ()),
            10: ("assign", o, em.ObjectExp(self.o1), T_, ()),
            11: ("assign", o, em.ObjectExp(self.o2), T_, ()),
            12: ("assign", uv, em.Int(1), T_, (self.v,)),
            13: ("assign", uv, em.Int(2), T_, (self.v,)),
            14: ("assign", u1, em.Int(1), T_, ()),
            15: ("inc", u1, em.Int(1), T_, ()),
        }
        if i in table:
            return table[i]
        return ("sim", self.sim(SIM_FLUENTS[i]))


def _SIMFUN(problem, state, actual_params):
    return []


class Container:
    def __init__(self, w: World, kind: str):
        from unified_planning.model import DurativeAction, GlobalStartTiming, InstantaneousAction, Problem, StartTiming

        self.w, self.kind = w, kind
        if kind == "inst":
            self.c = InstantaneousAction("a", _env=w.env)
            self.t = None
        elif kind in ("dur", "dur-tp"):
            self.c = DurativeAction("a", _env=w.env)
            self.t = StartTiming()
        else:
            self.c = Problem("p", w.env)
            for f in (w.x, w.y, w.b, w.o, w.u):
                self.c.add_fluent(f)
            self.c.add_objects([w.o1, w.o2])
            self.t = GlobalStartTiming(5)
        self.n = 0

    def t_arg(self):
        """The time argument of the next effect insertion.  The API takes any TimeExpression (a Timing, a
        bare Timepoint, a number = offset from the global start); the *-tp / *-num containers alternate
        between the equivalent forms of one and the same time, which must not change any verdict."""
        from fractions import Fraction

        from unified_planning.model.timing import Timepoint, TimepointKind

        self.n += 1
        if self.kind == "dur-tp":
            return Timepoint(TimepointKind.START) if self.n % 2 else self.t
        return self.t

    def insert(self, i):
        """True if accepted, False if UPConflictingEffectsException."""
        from unified_planning.exceptions import UPConflictingEffectsException

        it = self.w.item(i)
        try:
            if it[0] == "sim":
                if self.kind == "inst":
                    self.c.set_simulated_effect(it[1])
                else:
                    self.c.set_simulated_effect(self.t, it[1])
            else:
                k, fl, val, cond, fa = it
                if self.kind == "inst":
                    m = {"assign": "add_effect", "inc": "add_increase_effect", "dec": "add_decrease_effect"}[k]
                    getattr(self.c, m)(fl, val, cond, fa)
                elif self.kind in ("dur", "dur-tp"):
                    m = {"assign": "add_effect", "inc": "add_increase_effect", "dec": "add_decrease_effect"}[k]
                    getattr(self.c, m)(self.t_arg(), fl, val, cond, fa)
                else:
                    m = {"assign": "add_timed_effect", "inc": "add_increase_effect", "dec": "add_decrease_effect"}[k]
                    getattr(self.c, m)(self.t_arg(), fl, val, cond, fa)
            return True
        except UPConflictingEffectsException:
            return False

    def view(self):
        if self.kind == "inst":
            return (tuple(map(repr, self.c.effects)), repr(self.c.simulated_effect))
        if self.kind in ("dur", "dur-tp"):
            return (tuple(map(repr, self.c.effects.get(self.t, []))), repr(self.c.simulated_effects.get(self.t)))
        return (tuple(map(repr, self.c.timed_effects.get(self.t, []))), None)


_WORLD = None


def world():
    global _WORLD
    if _WORLD is None:
        _WORLD = World()
    return _WORLD


def run_perm(kind, perm, case):
    w = world()
    a = Container(w, kind)
    verdicts = []
    for k, i in enumerate(perm):
        before = a.view()
        try:
            ok = a.insert(i)
        except Exception as e:
            raise Violation(f"exception:{type(e).__name__}", f"{kind}: inserting item {i} after {perm[:k]} raised {e!r}", case)
        if not ok and a.view() != before:
            raise Violation("rejected-insertion-changed-view", f"{kind}: rejected item {i} after {list(perm[:k])} changed the stored effects", case)
        # the same insertion into a fresh container holding only the accepted prefix
        fresh = Container(w, kind)
        for j, ok_j in zip(perm[:k], verdicts):
            if ok_j and not fresh.insert(j):
                raise Violation("accepted-prefix-not-replayable", f"{kind}: accepted insertions {list(perm[:k])} / {verdicts} are rejected when replayed without the rejected ones", case)
        ok_fresh = fresh.insert(i)
        if ok_fresh != ok:
            raise Violation(
                "verdict-depends-on-rejected-insertions",
                f"{kind}: item {i} after {list(perm[:k])} (verdicts {verdicts}) is {'accepted' if ok else 'rejected'}, "
                f"but {'accepted' if ok_fresh else 'rejected'} in a fresh container holding only the accepted ones",
                case,
            )
        verdicts.append(ok)
    return verdicts, a.view()


def check_multiset(ctx, ms, kinds=("inst", "dur", "prob", "dur-tp"), max_perms=None):
    nontriv = False
    nsim = sum(1 for i in ms if i in SIM_ITEMS)
    fl = [FLUENT_OF.get(i) for i in ms if i not in SIM_ITEMS]
    simf = set().union(*[SIM_FLUENTS[i] for i in ms if i in SIM_ITEMS]) if any(i in SIM_ITEMS for i in ms) else set()
    if len(set(fl)) < len(fl) or any(f in simf for f in fl) or sum(1 for i in ms if i in SIM_ITEMS) > 1:
        nontriv = True
    for kind in kinds:
        if kind == "prob" and any(i in SIM_ITEMS for i in ms):
            continue
        case = {"items": list(ms), "container": kind}
        raised = None
        perms = sorted(set(permutations(ms)))
        if max_perms is not None and len(perms) > max_perms:
            step = len(perms) // max_perms
            perms = perms[::step][:max_perms]
        for perm in perms:
            ctx.evaluations += 1
            v, _ = run_perm(kind, perm, dict(case, perm=list(perm)))
            r = not all(v)
            if nsim > 1:
                # set_simulated_effect *replaces* the previous simulated effect, so a multiset with
                # two of them is not a collection of simultaneous insertions: only (b) and (c) apply
                continue
            if raised is None:
                raised, first = r, perm
            elif r != raised:
                raise Violation(
                    "raising-depends-on-order",
                    f"{kind}: order {list(first)} {'raises' if raised else 'does not raise'} but order {list(perm)} {'raises' if r else 'does not raise'}",
                    dict(case, perm=list(perm), other=list(first)),
                )
    return nontriv


def shard(ctx):
    maxsize = 3 if ctx.quick else 4
    multisets = [ms for n in range(1, maxsize + 1) for ms in combinations_with_replacement(range(NPOOL), n)]
    mine = multisets[ctx.shard :: ctx.nshards]

    def oracle(ms):
        ctx.evaluations -= 1  # counted per permutation inside
        if check_multiset(ctx, tuple(ms)):
            ctx.nontriv(list(ms))

    ctx.run_cases(mine, oracle)
    ctx.exhaustive = True
    ctx.extra["exhaustive_space"] = f"all multisets of size <= {maxsize} from {NPOOL} insertions x all permutations x 3 containers"

    def oracle_big(ms):
        ctx.evaluations -= 1
        if check_multiset(ctx, tuple(ms), max_perms=12):
            ctx.nontriv(list(ms))
        ctx.cls(f"size={len(ms)}")

    strat = st.lists(st.integers(0, NPOOL - 1), min_size=4, max_size=7)
    ctx.run_hypothesis(strat, oracle_big, ctx.scale(1200, 20000))


def replay(ctx, case):
    if isinstance(case, dict):
        if "perm" in case:
            run_perm(case["container"], tuple(case["perm"]), case)
        check_multiset(ctx, tuple(case["items"]), kinds=(case["container"],))
    else:
        check_multiset(ctx, tuple(case))
