"""C36 — UPState behaves like a finite map under any update history.

Model-based history test: a generated list of operations (root creation, make_child
from any live state, hash / == / repr which condense in place) is applied to real
UPState objects (subclasses with MAX_ANCESTORS 1, 2, 20, None) and to plain dicts.
"""

from __future__ import annotations

from hypothesis import strategies as st

from harness.core import Violation

PROPERTY = "C36"
TECHNIQUE = "model-based history testing (Hypothesis operation lists) against a dict model"
RULE = (
    "A case = (ancestor limit in {1,2,20,None}, fluent set of 4-6 ground fluents with/without defaults, list of "
    "<=40 (quick) / 80 ops: root(partial assignment), child(parent, updates incl. empty / reset-to-default / "
    "same-value), twin(parent, updates, redundant re-assignments: two children of one parent denoting the same map, compared at once), hash, eq, repr; an observation schedule: after every op, or only at <=4 drawn checkpoints and at the end, "
    "with == compared before or after the value reads, because hash / == / repr / a failing get_value condense states in "
    "place).  The limit is set both on a UPState subclass (roots) and on UPState itself (children).  At every observation "
    "every live state is compared with its dict model on every fluent, and the last 6 states pairwise for ==/hash; "
    "explicit eq ops are compared with the model too.  Non-trivial = history whose deepest chain exceeds the "
    "ancestor limit (condensation happened) and contains a reset-to-default update and two equal states "
    "reached by different histories; distinct by hash of the op list."
)
SHARDS = {"quick": 8, "thorough": 16}

NFL = 6


def _setup(limit):
    from unified_planning.environment import Environment
    from unified_planning.model import Fluent, Object, Problem, UPState

    env = Environment()
    tm = env.type_manager
    em = env.expression_manager
    T = tm.UserType("T")
    p = Problem("p", env)
    objs = [Object(f"o{i}", T, env) for i in range(3)]
    p.add_objects(objs)
    doms = []
    fexps = []
    # fluent i: type, default index (or None)
    layout = [
        ("bool", 0),
        ("bool", None),
        ("int", 1),
        ("int", None),
        ("obj", 2),
        ("obj", None),
    ]
    for i, (k, d) in enumerate(layout):
        if k == "bool":
            t, dom = tm.BoolType(), [em.FALSE(), em.TRUE(), em.TRUE()]
        elif k == "int":
            t, dom = tm.IntType(), [em.Int(0), em.Int(1), em.Int(7)]
        else:
            t, dom = T, [em.ObjectExp(o) for o in objs]
        f = Fluent(f"f{i}", t, environment=env)
        if d is None:
            p.add_fluent(f)
        else:
            p.add_fluent(f, default_initial_value=dom[d])
        doms.append((dom, d))
        fexps.append(em.FluentExp(f))

    class S(UPState):
        MAX_ANCESTORS = limit

    return p, S, doms, fexps


def oracle_factory(ctx):
    from unified_planning.exceptions import UPStateMissingFluentError

    def oracle(case):
        limit, ops = case["limit"], case["ops"]
        sched = None if case.get("sched") is None else set(case["sched"])
        pairs_first = bool(case.get("pairs_first"))
        p, S, doms, fexps = _setup(limit)
        # make_child builds plain UPState objects, so a subclass limit only governs root states:
        # the limit is also set on UPState itself for the duration of the case
        from unified_planning.model.state import UPState

        saved_limit = UPState.MAX_ANCESTORS
        UPState.MAX_ANCESTORS = limit
        try:
            return run(case, limit, ops, sched, pairs_first, p, S, doms, fexps)
        finally:
            UPState.MAX_ANCESTORS = saved_limit

    def run(case, limit, ops, sched, pairs_first, p, S, doms, fexps):
        live = []  # (state, model dict fluent idx -> value idx, depth)
        maxdepth = 0
        reset_default = False

        def val(i, vi):
            return doms[i][0][vi]

        def expected(model, i):
            if i in model:
                return val(i, model[i])
            d = doms[i][1]
            return None if d is None else val(i, d)

        def check_all(after):
            for si, (s, m, _) in enumerate(live):
                for i, fe in enumerate(fexps):
                    exp = expected(m, i)
                    try:
                        got = s.get_value(fe)
                    except UPStateMissingFluentError:
                        got = None
                    except Exception as e:
                        raise Violation(f"get_value-exception:{type(e).__name__}", f"{e!r} after {after}", case)
                    if got is not exp and got != exp:
                        raise Violation("get_value-differs", f"state #{si} fluent f{i}: expected {exp} got {got} after op {after}", case)

        def check_pairs(after):
            n = len(live)
            idx = list(range(n))[-6:]
            for a in idx:
                for b in idx:
                    if a >= b:
                        continue
                    sa, ma, _ = live[a]
                    sb, mb, _ = live[b]
                    same = all(expected(ma, i) == expected(mb, i) for i in range(NFL))
                    eq = sa == sb
                    if eq != same:
                        raise Violation("eq-differs", f"states #{a} #{b}: == is {eq}, same-values is {same} after op {after}", case)
                    if same and hash(sa) != hash(sb):
                        raise Violation("hash-differs", f"states #{a} #{b} equal but hashes differ after op {after}", case)
                    if same and ma != mb:
                        ctx_flags["equal_by_different_history"] = True

        ctx_flags = {}
        for k, op in enumerate(ops):
            kind = op[0]
            if kind == "root" or not live:
                upd = {i: vi for i, vi in (op[1] if kind == "root" else [])}
                s = S({fexps[i]: val(i, vi) for i, vi in upd.items()}, p)
                live.append((s, dict(upd), 0))
            elif kind == "child":
                par, m, d = live[-1 - (op[1] % len(live))]
                upd = {i: vi for i, vi in op[2]}
                for i, vi in upd.items():
                    if doms[i][1] is not None and vi == doms[i][1] and i in m and m[i] != vi:
                        reset_default = True
                before = {i: expected(m, i) for i in range(NFL)}
                c = par.make_child({fexps[i]: val(i, vi) for i, vi in upd.items()})
                m2 = dict(m)
                m2.update(upd)
                live.append((c, m2, d + 1))
                maxdepth = max(maxdepth, d + 1)
                # parent unaffected
                for i, fe in enumerate(fexps):
                    try:
                        got = par.get_value(fe)
                    except UPStateMissingFluentError:
                        got = None
                    if got != before[i]:
                        raise Violation("parent-changed", f"make_child changed parent's f{i}: {before[i]} -> {got}", case)
            elif kind == "twin":
                # two children of ONE parent that denote the same map through different updates:
                # the second re-assigns some fluents to the value they already have
                par, m, d = live[-1 - (op[1] % len(live))]
                upd = {i: vi for i, vi in op[2]}
                m2 = dict(m)
                m2.update(upd)
                upd2 = dict(upd)
                for i in op[3]:
                    cur = m2.get(i, doms[i][1])
                    if cur is not None:
                        upd2.setdefault(i, cur)
                c1 = par.make_child({fexps[i]: val(i, vi) for i, vi in upd.items()})
                c2 = par.make_child({fexps[i]: val(i, vi) for i, vi in upd2.items()})
                m3 = dict(m)
                m3.update(upd2)
                live.append((c1, m2, d + 1))
                live.append((c2, m3, d + 1))
                maxdepth = max(maxdepth, d + 1)
                if upd2 != upd:
                    ctx_flags["equal_by_different_history"] = True
                if op[4]:
                    eq = (c1 == c2) if op[4] == 1 else (c2 == c1)
                    if not eq:
                        raise Violation("eq-differs", f"twin children of one parent at op {k} (updates {upd} / {upd2}) denote the same map but == is False", case)
                    if hash(c1) != hash(c2):
                        raise Violation("hash-differs", f"twin children at op {k} equal but hashes differ", case)
            elif kind == "hash":
                hash(live[op[1] % len(live)][0])
            elif kind == "repr":
                repr(live[op[1] % len(live)][0])
            elif kind == "eq":
                (sa, ma, _), (sb, mb, _) = live[op[1] % len(live)], live[op[2] % len(live)]
                same = all(expected(ma, i) == expected(mb, i) for i in range(NFL))
                eq = sa == sb
                if eq != same:
                    raise Violation("eq-differs", f"explicit == at op {k}: == is {eq}, same-values is {same}", case)
                if same and ma != mb:
                    ctx_flags["equal_by_different_history"] = True
            # Observation schedule: hash / == / repr / a failing get_value condense a state in place, so
            # observing every state after every op would hide everything that only shows on
            # un-condensed states.  'dense' cases observe after every op, sparse ones only at drawn
            # checkpoints (and always at the end); the order of the two observation passes is drawn too.
            if sched is None or k in sched or k == len(ops) - 1:
                if pairs_first:
                    check_pairs(k)
                    check_all(k)
                else:
                    check_all(k)
                    check_pairs(k)
        lim = limit if limit is not None else 0
        ctx.cls(f"limit={limit}")
        if maxdepth > lim:
            ctx.cls("condensed")
        if reset_default:
            ctx.cls("reset_to_default")
        if ctx_flags.get("equal_by_different_history"):
            ctx.cls("equal_by_different_history")
        if maxdepth > lim and reset_default and ctx_flags.get("equal_by_different_history"):
            ctx.nontriv(case)

    return oracle


def strategy(ctx):
    nops = 40 if ctx.quick else 80
    upd = st.lists(st.tuples(st.integers(0, NFL - 1), st.integers(0, 2)), max_size=5)
    par = st.one_of(st.just(0), st.just(0), st.integers(0, 2), st.integers(0, 30))
    op = st.one_of(
        st.tuples(st.just("child"), par, upd),
        st.tuples(st.just("child"), par, upd),
        st.tuples(st.just("child"), par, upd),
        st.tuples(st.just("child"), par, upd),
        st.tuples(st.just("root"), upd),
        st.tuples(st.just("twin"), par, upd, st.lists(st.integers(0, NFL - 1), max_size=3), st.integers(0, 2)),
        st.tuples(st.just("hash"), st.integers(0, 30)),
        st.tuples(st.just("repr"), st.integers(0, 30)),
        st.tuples(st.just("eq"), st.integers(0, 30), st.integers(0, 30)),
    )
    return st.fixed_dictionaries(
        {"limit": st.sampled_from([1, 2, 20, None]), "sched": st.one_of(st.none(), st.lists(st.integers(0, nops), max_size=4)), "pairs_first": st.booleans(), "ops": st.one_of(st.lists(op, min_size=1, max_size=nops), st.lists(op, min_size=15, max_size=nops)).map(lambda l: [list(map(_l, o)) for o in l])}
    )


def _l(x):
    return [list(t) if isinstance(t, tuple) else t for t in x] if isinstance(x, list) else x


def shard(ctx):
    ctx.run_hypothesis(strategy(ctx), oracle_factory(ctx), ctx.scale(4800, 64000))


def replay(ctx, case):
    oracle_factory(ctx)(case)
