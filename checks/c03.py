"""C03 — sequential plan validation decides validity and metric values exactly."""

from __future__ import annotations

from fractions import Fraction

from hypothesis import strategies as st

from harness import gen
from harness.core import Abstain, Violation
from harness.refsim import UNDEF, Inapplicable, freeze
from harness.simcmp import normalize_spec, params_fnodes

PROPERTY = "C03"
TECHNIQUE = "property-based differential of SequentialPlanValidator against the reference sequential semantics and a reference metric evaluator"
RULE = (
    "Problems from the C01 grammar with zero or one quality metric (action costs: constant / parameter- / fluent-dependent, "
    "with default or complete; plan length; minimize / maximize final value; oversubscription with int / rational / negative "
    "gains).  Plans per problem: the empty plan, up to 6 valid plans found by reference BFS (length <= 3), Hypothesis-drawn "
    "random instance sequences (length <= 4) and mutations of valid plans (step dropped / duplicated / swapped).  Oracle: "
    "validate never raises; VALID iff the reference executes the plan and the final state is a goal state; INVALID carries a "
    "reason matching where the reference fails; VALID results report the reference metric value.  Non-trivial = plan with "
    ">= 1 step that is valid, or invalid for a reason other than its first precondition, and the empty plan once per metric "
    "kind; distinct by (problem, plan)."
)
SHARDS = {"quick": 8, "thorough": 16}
PROFILE = gen.SEQ_FULL


@st.composite
def cases(draw):
    g = gen.Gen(draw, PROFILE)
    p = g.problem()
    top = {"params": [], "vars": []}
    mk = g.pick(["none", "costs", "costs", "length", "minfinal", "maxfinal", "oversub", "oversub"])
    metric = None
    if mk == "costs":
        costs = []
        for a in p["actions"]:
            sc = {"params": [(n, t) for n, t in a["params"]], "vars": []}
            k = g.i(0, 2)
            c = ["i", g.i(0, 4)] if k == 0 else g.num_expr(sc, g.i(0, 2))
            costs.append([a["name"], c])
        default = None
        if g.b(0.4):
            default = ["i", g.i(0, 3)]
            costs = costs[: g.i(0, len(costs))]
        metric = {"kind": "costs", "costs": costs, "default": default}
    elif mk == "length":
        metric = {"kind": "length"}
    elif mk in ("minfinal", "maxfinal"):
        metric = {"kind": mk, "e": g.num_expr(top, g.i(0, 2))}
    elif mk == "oversub":
        goals = []
        seen = []
        for _ in range(g.i(1, 3)):
            e = g.bool_expr(top, g.i(0, 2))
            if e in seen:
                continue
            seen.append(e)
            w = g.pick([1, 2, -1, 5, "1/2", "-3/2", 0])
            goals.append([e, w])
        metric = {"kind": "oversub", "goals": goals}
    p["metric"] = metric
    plans = []
    for _ in range(g.i(1, 4)):
        plans.append([[g.i(0, 20), g.i(0, 50)] for _ in range(g.i(0, 4))])
    return {"problem": p, "plans": plans, "mut": g.i(0, 1000)}


def ref_metric(ref, b, metric, states, steps):
    """reference metric value of an executed plan (states[0..n], steps[i] applied in states[i])."""
    E = ref.E
    if metric.is_minimize_action_costs():
        total = Fraction(0)
        for s, (a, args) in zip(states, steps):
            c = metric.get_action_cost(a)
            if c is None:
                raise Abstain("action-without-cost")
            v = E.value(c, s, ref.binding(a, args), {})
            if v is UNDEF:
                raise Abstain("metric-reads-undefined")
            total += v
        return total
    if metric.is_minimize_sequential_plan_length():
        return Fraction(len(steps))
    if metric.is_minimize_expression_on_final_state() or metric.is_maximize_expression_on_final_state():
        v = E.value(metric.expression, states[-1], {}, {})
        if v is UNDEF:
            raise Abstain("metric-reads-undefined")
        return v
    if metric.is_oversubscription():
        total = Fraction(0)
        for g, w in metric.goals.items():
            v, touched = E.ev(g, states[-1], {}, {})
            if touched:
                raise Abstain("metric-reads-undefined")
            if v is True:
                total += Fraction(w)
        return total
    raise Abstain("unknown-metric")


def check(ctx, case):
    from unified_planning.engines import SequentialPlanValidator, ValidationResultStatus
    from unified_planning.engines.results import FailedValidationReason
    from unified_planning.plans import ActionInstance, SequentialPlan

    spec, b, ref = normalize_spec(case["problem"])
    problem, em = b.problem, b.em
    metric = problem.quality_metrics[0] if problem.quality_metrics else None
    mkind = (case["problem"].get("metric") or {}).get("kind", "none")
    instances = [(a, args) for a in problem.actions for args in ref.instances(a)]
    if not instances:
        return
    s0 = ref.initial_state()
    # valid plans by reference BFS
    found = []
    frontier = [(s0, [])]
    seen = {freeze(s0)}
    for level in range(3):
        nxt = []
        for s, path in frontier:
            for idx, (a, args) in enumerate(instances):
                try:
                    s2, why = ref.try_apply(s, a, args)
                except Abstain:
                    continue
                if s2 is None:
                    continue
                k = freeze(s2)
                p2 = path + [idx]
                try:
                    if ref.goal(s2) and len(found) < 6:
                        found.append(p2)
                except Abstain:
                    pass
                if k not in seen and len(seen) < 60:
                    seen.add(k)
                    nxt.append((s2, p2))
        frontier = nxt
    plans = [[]] + found
    for pl in case["plans"]:
        plans.append([(i * 7 + j) % len(instances) for i, j in pl])
    m = case["mut"]
    for f in found[:3]:
        if len(f) >= 1:
            k = m % len(f)
            plans.append(f[:k] + f[k + 1 :])
            plans.append(f[: k + 1] + f[k:])
        if len(f) >= 2:
            k = m % (len(f) - 1)
            plans.append(f[:k] + [f[k + 1], f[k]] + f[k + 2 :])
    validator = SequentialPlanValidator(environment=b.env)
    done = set()
    for plan in plans[:14]:
        if tuple(plan) in done:
            continue
        done.add(tuple(plan))
        steps = [instances[i] for i in plan]
        desc = [[a.name, list(map(str, args))] for a, args in steps]
        # reference execution
        states = [s0]
        verdict = "VALID"
        fail_at = None
        nontriv_reason = None
        try:
            for k, (a, args) in enumerate(steps):
                info = {}
                s2, why = ref.try_apply(states[-1], a, args, info)
                if s2 is None:
                    verdict, fail_at, nontriv_reason = "INAPPLICABLE", k, why
                    break
                states.append(s2)
            if verdict == "VALID" and not ref.goal(states[-1]):
                verdict = "GOALS"
            mval = None
            if metric is not None and (verdict == "VALID" or metric.is_minimize_action_costs()):
                # costs are evaluated step by step also on plans that fail later: a cost that reads an
                # undefined fluent is not settled by the statement (abstain)
                mval = ref_metric(ref, b, metric, states, steps[: len(states) - 1])
        except Abstain as ab:
            ctx.abstain(ab.reason)
            continue
        ctx.evaluations += 1
        up_plan = SequentialPlan([ActionInstance(a, params_fnodes(problem, em, a, args)) for a, args in steps], b.env)
        try:
            res = validator.validate(problem, up_plan)
        except Exception as e:
            raise Violation(
                f"validate-exception:{type(e).__name__}" + (":empty-plan" if not steps else ""),
                f"validate raised {e!r} on plan {desc} (metric {mkind}; reference verdict {verdict})",
                case,
                {"plan": desc},
            )
        up_valid = res.status == ValidationResultStatus.VALID
        if up_valid != (verdict == "VALID"):
            raise Violation(
                "validity-differs:" + ("up-valid" if up_valid else "up-invalid"),
                f"plan {desc}: validator says {res.status.name} ({res.reason}), reference says {verdict}" + (f" at step {fail_at} ({nontriv_reason})" if fail_at is not None else ""),
                case,
                {"plan": desc},
            )
        if not up_valid:
            if res.reason is None:
                raise Violation("invalid-without-reason", f"plan {desc}: INVALID result has no reason", case, {"plan": desc})
            exp_reason = FailedValidationReason.INAPPLICABLE_ACTION if verdict == "INAPPLICABLE" else FailedValidationReason.UNSATISFIED_GOALS
            if res.reason != exp_reason:
                raise Violation("wrong-failure-reason", f"plan {desc}: reason {res.reason}, reference fails by {verdict}", case, {"plan": desc})
        elif metric is not None:
            me = res.metric_evaluations
            if not me or metric not in me:
                raise Violation("metric-missing", f"plan {desc}: VALID result without the value of metric {mkind}", case, {"plan": desc})
            if Fraction(me[metric]) != mval:
                raise Violation(f"metric-value-differs:{mkind}", f"plan {desc}: validator reports {me[metric]}, reference {mval} ({mkind})", case, {"plan": desc})
        ctx.cls(f"{verdict}:{mkind}")
        if (steps and (verdict == "VALID" or verdict == "GOALS" or nontriv_reason != "precondition" or fail_at > 0)) or not steps:
            ctx.nontriv([hash_spec(spec), plan] if steps else ["empty", mkind, hash_spec(spec)][:2] if False else [hash_spec(spec), plan])


def hash_spec(spec):
    from harness.core import case_hash

    return case_hash(spec)


def shard(ctx):
    def oracle(case):
        ctx.evaluations -= 1
        check(ctx, case)

    ctx.run_hypothesis(cases(), oracle, ctx.scale(1600, 40000))


def replay(ctx, case):
    check(ctx, case)
