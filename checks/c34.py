"""C34 — HTN task-network ordering extraction is exact.

Exhaustive over all precedence relations on n<=4 subtasks (quick; n=5 thorough,
sampled in quick), on TaskNetwork and Method, plus generated mixed networks with a
non-precedence temporal constraint.  Oracle: harness transitive closure / unique
linear extension.
"""

from __future__ import annotations

from itertools import permutations

from hypothesis import strategies as st

from harness.core import Violation

PROPERTY = "C34"
TECHNIQUE = "exhaustive enumeration of precedence relations + generated mixed networks against a closure/linear-extension oracle"
RULE = (
    "All subsets of the n(n-1) ordered pairs for n=1..4 subtasks (4,096+64+4+1 relations, each on TaskNetwork and "
    "Method, insertion order rotated by the relation index) are enumerated completely in the quick tier; n=5 (2^20) "
    "is enumerated completely in the thorough tier and sampled by Hypothesis in quick.  Mixed networks add one or "
    "more non-precedence temporal constraints (delay != 0, start-before-start, LE, timing vs global timing, "
    "disjunction of precedences) and optionally a non-temporal constraint.  Non-trivial = relation with >= 2 pairs "
    "or a mixed network; all enumerated relations are distinct by construction."
)
SHARDS = {"quick": 8, "thorough": 16}


def closure(n, pairs):
    reach = [[False] * n for _ in range(n)]
    for a, b in pairs:
        reach[a][b] = True
    for k in range(n):
        for i in range(n):
            if reach[i][k]:
                for j in range(n):
                    if reach[k][j]:
                        reach[i][j] = True
    return reach


def unique_extension(n, pairs):
    """the unique linear extension, or None (cyclic or several extensions)."""
    reach = closure(n, pairs)
    if any(reach[i][i] for i in range(n)):
        return None
    for i in range(n):
        for j in range(i + 1, n):
            if not reach[i][j] and not reach[j][i]:
                return None
    return sorted(range(n), key=lambda i: sum(reach[i]), reverse=True)


def make_network(kind, n):
    from unified_planning.environment import Environment
    from unified_planning.model.htn import Method, Task, TaskNetwork

    env = Environment()
    t = Task("t", _env=env)
    if kind == "tn":
        net = TaskNetwork(env)
    else:
        net = Method("m", _env=env)
        net.set_task(Task("top", _env=env))
    subs = [net.add_subtask(t, ident=f"s{i}") for i in range(n)]
    return env, net, subs


def check_relation(case):
    n, pairs, kind = case["n"], [tuple(p) for p in case["pairs"]], case["kind"]
    env, net, subs = make_network(kind, n)
    for a, b in pairs:
        net.set_strictly_before(subs[a], subs[b])
    try:
        po = net.partial_order()
        to = net.total_order()
    except Exception as e:
        raise Violation(f"exception:{type(e).__name__}", f"{e!r}", case)
    ids = [s.identifier for s in subs]
    idx = {s: i for i, s in enumerate(ids)}
    exp_to = unique_extension(n, pairs)
    if (to is None) != (exp_to is None):
        raise Violation(
            "total-order-existence",
            f"total_order()={to} but unique linear extension is {exp_to} for pairs {pairs}",
            case,
        )
    if to is not None and [idx[x] for x in to] != exp_to:
        raise Violation("total-order-wrong", f"total_order()={to}, expected {[ids[i] for i in exp_to]}", case)
    if po is None:
        raise Violation("partial-order-none", f"partial_order() is None for pure precedences {pairs}", case)
    got = [(idx[a], idx[b]) for a, b in po]
    if closure(n, got) != closure(n, pairs):
        raise Violation("partial-order-relation-differs", f"partial_order()={po} vs inserted {pairs}", case)
    if to is None and set(got) != set(pairs):
        raise Violation("partial-order-not-exact", f"partial_order()={po} vs inserted {pairs}", case)


def relation_cases(n, lo, hi, step):
    allpairs = [(a, b) for a in range(n) for b in range(n) if a != b]
    m = len(allpairs)
    for mask in range(lo, hi, step):
        pairs = [allpairs[i] for i in range(m) if mask >> i & 1]
        if pairs:
            r = mask % len(pairs)
            pairs = pairs[r:] + pairs[:r]
        yield {"n": n, "pairs": [list(p) for p in pairs], "kind": "tn" if mask % 2 == 0 else "method", "mask": mask}
        if n <= 3:
            yield {"n": n, "pairs": [list(p) for p in pairs], "kind": "method" if mask % 2 == 0 else "tn", "mask": mask}


MIXED_KINDS = ["delay", "start_start", "le", "global", "disj", "end_end", "start_end"]


def check_mixed(case):
    from unified_planning.model import GlobalStartTiming, StartTiming

    n, pairs, kind, extra = case["n"], [tuple(p) for p in case["pairs"]], case["kind"], case["extra"]
    env, net, subs = make_network(kind, n)
    em = env.expression_manager
    items = [("p", p) for p in pairs]
    pos = extra["pos"] % (len(items) + 1)
    items.insert(pos, ("x", None))
    a, b = subs[extra["a"] % n], subs[extra["b"] % n]
    for k, p in items:
        if k == "p":
            net.set_strictly_before(subs[p[0]], subs[p[1]])
            continue
        m = extra["mixed"]
        if m == "delay":
            net.set_strictly_before(a.end + extra["d"], b.start)
        elif m == "start_start":
            net.set_strictly_before(a.start, b.start)
        elif m == "end_end":
            net.set_strictly_before(a.end, b.end)
        elif m == "start_end":
            net.add_constraint(em.LT(a.start, b.end))
        elif m == "le":
            net.add_constraint(em.LE(a.end, b.start))
        elif m == "global":
            net.add_constraint(em.LT(GlobalStartTiming(extra["d"]), b.start))
        elif m == "disj":
            c, d = subs[(extra["a"] + 1) % n], subs[(extra["b"] + 1) % n]
            net.add_constraint(em.Or(em.LT(a.end, b.start), em.LT(c.end, d.start)))
    if extra.get("nontemporal"):
        net.add_constraint(em.Equals(em.Int(1), em.Int(1)) if False else em.Not(em.FALSE()))
    try:
        po = net.partial_order()
        to = net.total_order()
    except Exception as e:
        raise Violation(f"exception:{type(e).__name__}", f"{e!r}", case)
    if po is not None or to is not None:
        raise Violation(
            "mixed-network-reports-order",
            f"network with a '{extra['mixed']}' constraint reports partial_order={po} total_order={to}",
            case,
        )


def mixed_strategy():
    def build(n, mask, kind, mixed, a, b, d, pos, nt):
        allpairs = [(x, y) for x in range(n) for y in range(n) if x != y]
        pairs = [list(allpairs[i]) for i in range(len(allpairs)) if mask >> i & 1]
        if n == 1:
            # a single subtask: only constraints that need no second subtask (release date, start(s) < end(s))
            mixed = "global" if mixed in ("delay", "le", "global", "disj") else "start_end"
            mask = 0
        if mixed in ("start_start", "end_end", "le", "disj", "start_end", "delay") and n >= 2 and a % n == b % n:
            b = a + 1
        return {"n": n, "pairs": pairs, "kind": kind, "extra": {"mixed": mixed, "a": a, "b": b, "d": d, "pos": pos, "nontemporal": nt}}

    return st.builds(
        build,
        st.integers(1, 4),
        st.integers(0, 4095),
        st.sampled_from(["tn", "method"]),
        st.sampled_from(MIXED_KINDS),
        st.integers(0, 3),
        st.integers(0, 3),
        st.integers(1, 3),
        st.integers(0, 12),
        st.booleans(),
    )


def rel5_strategy():
    return st.builds(lambda mask: next(relation_cases(5, mask, mask + 1, 1)), st.integers(0, 2**20 - 1))


def shard(ctx):
    def oracle(case):
        if "extra" in case:
            check_mixed(case)
            ctx.cls("mixed:" + case["extra"]["mixed"])
            ctx.nontriv(case)
        else:
            check_relation(case)
            ctx.cls(f"n={case['n']}")
            if len(case["pairs"]) >= 2:
                ctx.nontriv(case)

    for n in (1, 2, 3, 4):
        m = n * (n - 1)
        ctx.run_cases(relation_cases(n, ctx.shard, 2**m, ctx.nshards), oracle)
    if not ctx.quick:
        ctx.run_cases(relation_cases(5, ctx.shard, 2**20, ctx.nshards), oracle)
    else:
        ctx.run_hypothesis(rel5_strategy(), oracle, ctx.scale(6000, 0), salt=1)
    ctx.exhaustive = True
    ctx.extra["exhaustive_space"] = "all precedence relations, n<=4" if ctx.quick else "all precedence relations, n<=5"
    ctx.run_hypothesis(mixed_strategy(), oracle, ctx.scale(3000, 40000), salt=2)


def replay(ctx, case):
    if "extra" in case:
        check_mixed(case)
    else:
        check_relation(case)
