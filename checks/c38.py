"""C38 — writer renamings are valid, injective and invertible."""

from __future__ import annotations

import re

from hypothesis import strategies as st

from harness import gen
from harness.build import build
from harness.core import Abstain, Violation

PROPERTY = "C38"
TECHNIQUE = "property-based testing with adversarial identifiers; validity / injectivity / inverse predicates over the writers' public renaming API and a declaration tokenizer for ANML"
RULE = (
    "Classical, numeric and temporal problems (flat and hierarchical typing) whose types, fluents, objects and actions take "
    "names from an adversarial pool: case variants of one another, PDDL / ANML keywords (and, at, start, end, object, number, "
    "action, fluent, when, duration, total-time ...), names with symbols or leading digits, names equal to the mangled form of "
    "another name (f_1x, and_, a_0, object_).  PDDL: every item's name matches [a-zA-Z][a-zA-Z0-9_-]* (leading ? for "
    "parameters), is not a reserved word (temporal words only for temporal problems), distinct items of one namespace differ "
    "case-insensitively, get_item_named / get_pddl_name are inverse, declared symbols in the text are these names.  ANML: "
    "declared identifiers extracted by a tokenizer are valid, not keywords, distinct per namespace and as many as the model "
    "items.  Non-trivial = problem with two names colliding after lower-casing / mangling or a keyword-named item; distinct by "
    "hash of the spec."
)
SHARDS = {"quick": 8, "thorough": 16}

POOL = [
    "and", "at", "start", "end", "object", "number", "action", "fluent", "when", "duration", "total-time", "over", "all", "not", "or",
    "Loc", "loc", "LOC", "lOc", "1x", "f_1x", "x-y", "x.y", "x_y", "and_", "and__", "a_0", "a", "A", "object_", "o_1x", "?v", "p_?v",
    "move", "Move", "type", "instance", "goal", "in", "with", "true", "false", "increase", "assign", "define", "domain", "exists", "forall",
    "f", "g", "h", "t", "u",
    # non-ASCII first letters (str.isalpha() is true, [a-zA-Z] is not), upper-case keywords, keyword case variants
    "état", "Ölpumpe", "αlpha", "ñu", "UNDEFINED", "undefined", "Start", "END", "Forall", "ACTION",
]

# Words of the PDDL 3.1 BNF that occur where a NAME token can occur (operators of goal descriptions,
# effects and metrics, and the structure keywords).  "object" / "number" are predefined *type* names,
# not reserved words for other namespaces, and are deliberately not listed.
PDDL_CORE_KEYWORDS = {
    "define", "domain", "problem", "and", "or", "not", "imply", "exists", "forall", "when", "either",
    "increase", "decrease", "assign", "scale-up", "scale-down", "minimize", "maximize", "total-time",
}
PDDL_TEMPORAL_KEYWORDS = {"durative-action", "duration", "condition", "at", "over", "start", "end", "all"}
ANML_CORE_KEYWORDS = {
    "action", "and", "constant", "duration", "else", "fact", "fluent", "function", "goal", "in", "instance", "predicate", "when", "with",
    "exists", "forall", "implies", "iff", "not", "or", "xor", "all", "end", "start", "false", "true", "infinity", "object", "type",
    "boolean", "integer", "float", "UNDEFINED",
}


@st.composite
def cases(draw):
    temporal = draw(st.integers(0, 3)) == 0
    base = dict(ifuns=False, undefined=False, bounded=False, invariants=False, names={"*": POOL}, max_objects=4, max_fluents=4)
    if temporal:
        g = gen.TGen(draw, gen.Profile(**base, max_arity=1, nested_fluent_args=False, division=False, cond_effects=False, temporal_delays=False, timed_items=False, forall_effects=False))
        p = g.temporal_problem()
    else:
        g = gen.Gen(draw, gen.Profile(**base, fluent_kinds=["bool", "bool", "int", "real"], nested_fluent_args=False))
        p = g.problem()
    return {"problem": p, "temporal": temporal}


def check(ctx, case):
    from unified_planning.io import ANMLWriter, PDDLWriter

    b = build(case["problem"])
    problem = b.problem
    spec = case["problem"]
    temporal = any(hasattr(a, "duration") for a in problem.actions)
    names = [t[0] for t in spec["types"]] + [o[0] for o in spec["objects"]] + [f["name"] for f in spec["fluents"]] + [a["name"] for a in spec["actions"]]
    low = [re.sub("[^0-9a-z_-]", "_", n.lower()) for n in names]
    nontrivial = len(set(low)) < len(low) or any(n.lower() in PDDL_CORE_KEYWORDS | PDDL_TEMPORAL_KEYWORDS | ANML_CORE_KEYWORDS for n in names)
    # ------------------------------------------------------------ PDDL
    w = PDDLWriter(problem, rewrite_bool_assignments=True)
    try:
        dom = w.get_domain()
        prb = w.get_problem()
    except Exception as e:
        from unified_planning.exceptions import UPProblemDefinitionError, UPTypeError

        # whether the writer can express the problem at all is C18's subject; C38 is about the names
        from unified_planning.exceptions import UPProblemDefinitionError, UPTypeError, UPUnreachableCodeError

        if not isinstance(e, (UPProblemDefinitionError, UPTypeError, UPUnreachableCodeError)):
            raise Violation(f"pddl-writer-exception:{type(e).__name__}", f"{e!r}", case)
        dom = prb = None
        ctx.cls("pddl-writer-rejected:" + type(e).__name__)
    if dom is not None:
        items = {"type": list(problem.user_types), "fluent": list(problem.fluents), "object": list(problem.all_objects), "action": list(problem.actions)}
        kw = PDDL_CORE_KEYWORDS | (PDDL_TEMPORAL_KEYWORDS if temporal else set())
        for ns, its in items.items():
            seen = {}
            for it in its:
                try:
                    n = w.get_pddl_name(it)
                except Exception as e:
                    continue  # items the writer never needed to name (e.g. unused types)
                if not re.fullmatch(r"[a-zA-Z][a-zA-Z0-9_-]*", n):
                    raise Violation("pddl-invalid-identifier", f"{ns} {getattr(it, 'name', it)!r} is written as {n!r}", case)
                if n.lower() in kw:
                    raise Violation("pddl-keyword-name", f"{ns} {getattr(it, 'name', it)!r} is written as the reserved word {n!r}", case)
                if n.lower() in seen and seen[n.lower()] is not it:
                    raise Violation("pddl-names-collide", f"{ns}s {getattr(it, 'name', it)!r} and {getattr(seen[n.lower()], 'name', '')!r} are both written as {n!r} (case-insensitively)", case)
                seen[n.lower()] = it
                back = w.get_item_named(n)
                if back is not it and back != it:
                    raise Violation("pddl-lookup-not-inverse", f"get_item_named({n!r}) is {back}, not the {ns} {getattr(it, 'name', it)!r}", case)
                if w.get_pddl_name(back) != n:
                    raise Violation("pddl-lookup-not-inverse", f"get_pddl_name(get_item_named({n!r})) != {n!r}", case)
        for a in problem.actions:
            seen = {}
            for p in a.parameters:
                try:
                    n = w.get_pddl_name(p)
                except Exception:
                    continue  # action not emitted by the writer
                if not re.fullmatch(r"\?[a-zA-Z][a-zA-Z0-9_-]*", n):
                    raise Violation("pddl-invalid-identifier", f"parameter {p.name!r} of {a.name!r} is written as {n!r}", case)
                if n.lower() in seen:
                    raise Violation("pddl-names-collide", f"two parameters of {a.name!r} are written {n!r}", case)
                seen[n.lower()] = p
        # declared symbols in the text are writer names
        declared = set(re.findall(r"\(:action\s+(\S+)|\(:durative-action\s+(\S+)", dom))
        declared = {x for tup in declared for x in tup if x}
        known = set()
        for a in problem.actions:
            try:
                known.add(w.get_pddl_name(a))
            except Exception:
                pass  # actions the writer did not emit
        if not declared <= known:
            raise Violation("pddl-text-names-differ", f"actions declared in the domain text {sorted(declared)} vs get_pddl_name {sorted(known)}", case)
        ctx.cls("pddl-checked")
    # ------------------------------------------------------------ ANML
    try:
        text = ANMLWriter(problem).get_problem()
    except Exception as e:
        raise Violation(f"anml-writer-exception:{type(e).__name__}", repr(e), case)
    ident = r"[^\s\(\);,<]+"
    decl = {
        "type": re.findall(rf"^type\s+({ident})", text, re.M),
        "fluent": re.findall(rf"^(?:fluent|constant)\s+.*?\s({ident})\s*(?:\(|;)", text, re.M),
        "action": re.findall(rf"^action\s+({ident})\s*\(", text, re.M),
        "instance": [x.strip() for line in re.findall(r"^instance\s+\S+\s+([^;]+);", text, re.M) for x in line.split(",")],
    }
    counts = {"type": len(problem.user_types), "fluent": len(problem.fluents), "action": len(problem.actions), "instance": len(list(problem.all_objects))}
    allnames = {}
    for ns, ids in decl.items():
        if ns == "type":
            # unused types may be omitted; never more than declared in the model
            if len(ids) > counts[ns]:
                raise Violation("anml-declaration-count", f"{len(ids)} {ns} declarations for {counts[ns]} model items", case)
        elif len(ids) != counts[ns]:
            raise Violation("anml-declaration-count", f"{len(ids)} {ns} declarations for {counts[ns]} model items: {ids}", case)
        for n in ids:
            if not re.fullmatch(r"[a-zA-Z][a-zA-Z0-9_]*", n):
                raise Violation("anml-invalid-identifier", f"{ns} declared as {n!r}", case)
            if n in ANML_CORE_KEYWORDS:
                raise Violation("anml-keyword-name", f"{ns} declared with the keyword {n!r}", case)
            if n in allnames:
                raise Violation("anml-names-collide", f"{n!r} is declared twice ({allnames[n]} and {ns})", case)
            allnames[n] = ns
    ctx.cls("anml-checked")
    if nontrivial:
        ctx.nontriv(case["problem"])
        ctx.cls("nontrivial")


def shard(ctx):
    ctx.run_hypothesis(cases(), lambda case: check(ctx, case), ctx.scale(1200, 20000))


def replay(ctx, case):
    check(ctx, case)
