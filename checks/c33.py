"""C33 — ProblemKind ordering is a lattice consistent with == and hash."""

from __future__ import annotations

from hypothesis import strategies as st

from harness.core import Violation

PROPERTY = "C33"
TECHNIQUE = "property-based algebraic laws (lattice, ==/hash consistency) + differential against a set model with a transcribed upgrade table"
RULE = (
    "Triples of kinds over random feature subsets valid for their version (deprecated features in >=30% of draws), "
    "versions 1,2,3 and unspecified; the 2nd/3rd kind are biased to be near the 1st (one feature apart / differing only "
    "in deprecated features / superset).  Every operation runs on fresh clones with feature snapshots before/after.  "
    "Second part: kinds reached through histories of <= 14 set_* / unset_* calls interleaved with reads (version, hash, ==, <=): "
    "the result must be ==, <= both ways, equally hashed and equally versioned as a kind built afresh from the same features.  "
    "Non-trivial = triple containing a pair related by <= with different feature sets, or differing only in deprecated "
    "features, or of different versions; distinct by (features, version) of the triple."
)
SHARDS = {"quick": 8, "thorough": 16}

DEPRECATED_V2 = {"CONTINUOUS_NUMBERS", "DISCRETE_NUMBERS", "NUMERIC_FLUENTS"}
ADDED_V2 = {
    "INT_TYPE_DURATIONS", "REAL_TYPE_DURATIONS", "INT_FLUENTS", "REAL_FLUENTS",
    "INT_NUMBERS_IN_ACTIONS_COST", "REAL_NUMBERS_IN_ACTIONS_COST",
    "INT_NUMBERS_IN_OVERSUBSCRIPTION", "REAL_NUMBERS_IN_OVERSUBSCRIPTION",
    "UNDEFINED_INITIAL_NUMERIC", "UNDEFINED_INITIAL_SYMBOLIC",
}
ADDED_V3 = {"PROCESSES", "EVENTS", "INCREASE_CONTINUOUS_EFFECTS", "DECREASE_CONTINUOUS_EFFECTS", "NON_LINEAR_CONTINUOUS_EFFECTS"}


def all_features():
    from unified_planning.model.problem_kind import FEATURES

    out = []
    for k in sorted(FEATURES):
        out.extend(FEATURES[k])
    return sorted(set(out))


def added(f):
    return 2 if f in ADDED_V2 else 3 if f in ADDED_V3 else 1


def model_version(feats, v):
    if v is not None:
        return v
    return max([1] + [added(f) for f in feats])


def valid(v):
    return {f for f in ALL if added(f) <= v and not (f in DEPRECATED_V2 and v >= 2)}


def upgrade(feats, v_from, v_to):
    feats = set(feats)
    while v_from < v_to:
        if v_from == 1:
            new = set(feats)
            if "CONTINUOUS_NUMBERS" in feats and "NUMERIC_FLUENTS" in feats:
                new.add("REAL_FLUENTS")
            if "DISCRETE_NUMBERS" in feats and "NUMERIC_FLUENTS" in feats:
                new.add("INT_FLUENTS")
            if "ACTIONS_COST" in feats:
                new |= {"INT_NUMBERS_IN_ACTIONS_COST", "REAL_NUMBERS_IN_ACTIONS_COST"}
            if "OVERSUBSCRIPTION" in feats:
                new |= {"INT_NUMBERS_IN_OVERSUBSCRIPTION", "REAL_NUMBERS_IN_OVERSUBSCRIPTION"}
            if "CONTINUOUS_TIME" in feats:
                new |= {"REAL_TYPE_DURATIONS", "INT_TYPE_DURATIONS"}
            if "DISCRETE_TIME" in feats:
                new |= {"INT_TYPE_DURATIONS"}
            feats = new - DEPRECATED_V2
        v_from += 1
    return feats


ALL = None


def mk(spec):
    from unified_planning.model import ProblemKind

    return ProblemKind(list(spec[0]), spec[1])


def model_le(a, b):
    va, vb = model_version(*a), model_version(*b)
    v = max(va, vb)
    fa = upgrade(a[0], va, v) & valid(v)
    fb = upgrade(b[0], vb, v) & valid(v)
    return fa <= fb


def oracle_factory(ctx):
    global ALL
    ALL = all_features()

    def snap(k):
        return (frozenset(k.features), k._version)

    def op(name, case, fn, *specs):
        ks = [mk(s) for s in specs]
        before = [snap(k) for k in ks]
        hb = [hash(k) for k in ks]
        try:
            r = fn(*ks)
        except Exception as e:
            raise Violation(f"exception:{name}:{type(e).__name__}", f"{name} raised {e!r}", case)
        after = [snap(k) for k in ks]
        if before != after:
            raise Violation(f"operand-mutated:{name}", f"{name} changed an operand: {sorted(before[0][0] ^ after[0][0]) + (sorted(before[1][0] ^ after[1][0]) if len(before) > 1 else [])}", case)
        if hb != [hash(k) for k in ks]:
            raise Violation(f"hash-changed:{name}", f"{name} changed an operand's hash", case)
        return r

    def oracle(case):
        a, b, c = [(frozenset(x[0]), x[1]) for x in case["kinds"]]
        le = lambda x, y: op("le", case, lambda p, q: p <= q, x, y)
        eq = lambda x, y: op("eq", case, lambda p, q: p == q, x, y)
        nontriv = False
        for x in (a, b, c):
            if not le(x, x):
                raise Violation("not-reflexive", f"{sorted(x[0])} v{x[1]} is not <= itself", case)
        for x, y in ((a, b), (b, a), (a, c), (c, a), (b, c), (c, b)):
            got, exp = le(x, y), model_le(x, y)
            vx, vy = model_version(*x), model_version(*y)
            if got != exp:
                raise Violation(
                    "le-differs-from-model" + ("-cross-version" if vx != vy else ""),
                    f"{sorted(x[0])} v{x[1]} <= {sorted(y[0])} v{y[1]} is {got}, set model says {exp}",
                    case,
                )
            if vx != vy:
                nontriv = True
            if got and x[0] != y[0]:
                nontriv = True
            if vx == vy:
                both = got and le(y, x)
                e = eq(x, y)
                if both != e:
                    raise Violation("antisymmetry", f"a<=b and b<=a is {both} but a==b is {e}: {sorted(x[0])} v{x[1]} / {sorted(y[0])} v{y[1]}", case)
                if e:
                    hx, hy = hash(mk(x)), hash(mk(y))
                    if hx != hy:
                        raise Violation("equal-but-different-hash", f"{sorted(x[0] ^ y[0])} differ only in ignored features but hashes differ", case)
                    if x[0] != y[0]:
                        nontriv = True
        # transitivity on all orderings
        import itertools

        for x, y, z in itertools.permutations((a, b, c)):
            if not (model_version(*x) == model_version(*y) == model_version(*z)):
                continue  # the laws are stated for kinds of the same version
            if le(x, y) and le(y, z) and not le(x, z):
                raise Violation("not-transitive", f"{x} <= {y} <= {z} but not {x} <= {z}", case)
        # lattice operations
        for x, y in ((a, b), (a, c), (b, c)):
            if model_version(*x) != model_version(*y):
                continue
            u = op("union", case, lambda p, q: p.union(q), x, y)
            i = op("intersection", case, lambda p, q: p.intersection(q), x, y)
            us, is_ = (frozenset(u.features), u._version), (frozenset(i.features), i._version)
            if not (le(x, us) and le(y, us)):
                raise Violation("union-not-upper-bound", f"{x} / {y} -> {us}", case)
            if not (le(is_, x) and le(is_, y)):
                raise Violation("intersection-not-lower-bound", f"{x} / {y} -> {is_}", case)
            for z in (a, b, c):
                if model_version(*z) != model_version(*x):
                    continue
                if le(x, z) and le(y, z) and not le(us, z):
                    raise Violation("union-not-least", f"{x} / {y} -> {us}, but {z} is a smaller upper bound", case)
                if le(z, x) and le(z, y) and not le(z, is_):
                    raise Violation("intersection-not-greatest", f"{x} / {y} -> {is_}, but {z} is a greater lower bound", case)
        # upgrading preserves <=
        for x, y in ((a, b), (b, a), (a, c), (c, a), (b, c), (c, b)):
            vx, vy = model_version(*x), model_version(*y)
            if vx == vy and vx < 3 and le(x, y):
                top = (frozenset(), 3)
                ux = op("union", case, lambda p, q: p.union(q), x, top)
                uy = op("union", case, lambda p, q: p.union(q), y, top)
                if not (ux <= uy):
                    raise Violation("upgrade-not-monotone", f"{x} <= {y} but not after upgrading both to v3", case)
        ctx.cls("versions:" + ",".join(str(k[1]) for k in (a, b, c)))
        if nontriv:
            ctx.nontriv([[sorted(k[0]), k[1]] for k in (a, b, c)])

    return oracle


def strategy():
    feats = all_features()
    dep = sorted(DEPRECATED_V2)

    @st.composite
    def kind(draw, near=None):
        v = draw(st.sampled_from([1, 2, 3, None, 3, 2]))
        if near is not None and draw(st.integers(0, 9)) < 7:
            base = set(near[0])
            v = near[1] if draw(st.integers(0, 9)) < 7 else v
            m = draw(st.integers(0, 4))
            if m == 0:
                base ^= {draw(st.sampled_from(feats))}
            elif m == 1:
                base ^= {draw(st.sampled_from(dep))}
            elif m == 2:
                base |= set(draw(st.lists(st.sampled_from(feats), max_size=3)))
            elif m == 3 and base:
                base -= {draw(st.sampled_from(sorted(base)))}
        else:
            base = set(draw(st.lists(st.sampled_from(feats), max_size=8)))
            if draw(st.integers(0, 9)) < 4:
                base |= set(draw(st.lists(st.sampled_from(dep), min_size=1, max_size=3)))
        if v is not None:
            base = {f for f in base if added(f) <= v}
        return (sorted(base), v)

    @st.composite
    def triple(draw):
        a = draw(kind())
        b = draw(kind(near=a))
        c = draw(kind(near=draw(st.sampled_from([a, b]))))
        return {"kinds": [list(a), list(b), list(c)]}

    return triple()


def history_strategy():
    feats = all_features()
    op = st.one_of(
        st.tuples(st.just("set"), st.sampled_from(feats)),
        st.tuples(st.just("unset"), st.sampled_from(feats)),
        st.tuples(st.just("unset-present"), st.integers(0, 30)),
        st.tuples(st.just("read"), st.sampled_from(["version", "hash", "eq", "le", "features"])),
        st.tuples(st.just("read"), st.sampled_from(["version", "hash", "eq", "le"])),
    )
    return st.fixed_dictionaries(
        {
            "start": st.lists(st.sampled_from(feats), max_size=4).map(sorted),
            "version": st.sampled_from([None, None, None, 1, 2, 3]),
            "ops": st.lists(op, min_size=2, max_size=14).map(lambda l: [list(o) for o in l]),
        }
    )


def history_oracle_factory(ctx):
    from unified_planning.model import ProblemKind
    from unified_planning.model.problem_kind import FEATURES

    cat = {}
    for c, fs in FEATURES.items():
        for f in fs:
            cat[f] = c.lower()

    def oracle(case):
        """a kind reached through a history of set_* / unset_* calls interleaved with reads must be
        indistinguishable from a kind freshly built from the same features and declared version"""
        v = case["version"]
        start = [f for f in case["start"] if v is None or added(f) <= v]
        try:
            k = ProblemKind(start, v)
        except Exception:
            return
        shrank_after_read = False
        read_seen = False
        for o in case["ops"]:
            if o[0] == "read":
                read_seen = True
                if o[1] == "version":
                    k.version
                elif o[1] == "hash":
                    hash(k)
                elif o[1] == "eq":
                    k == ProblemKind(sorted(k.features), v)
                elif o[1] == "le":
                    k <= ProblemKind(sorted(k.features), v)
                else:
                    set(k.features)
                continue
            f = o[1]
            if o[0] == "unset-present":
                present = sorted(k.features)
                if not present:
                    continue
                f = present[o[1] % len(present)]
            try:
                if o[0] == "set":
                    getattr(k, "set_" + cat[f])(f)
                else:
                    if f in k.features and read_seen:
                        shrank_after_read = True
                    getattr(k, "unset_" + cat[f])(f)
            except Exception:
                continue  # a feature the declared version does not allow, ...: rejected calls are not the subject
        try:
            fresh = ProblemKind(sorted(k.features), v)
        except Exception:
            return
        desc = f"kind reached by {case['ops']} from {start} (declared version {v})"
        if k.version != fresh.version:
            raise Violation("history:version-differs", f"{desc}: version {k.version}, a fresh kind with the same features has {fresh.version}", case)
        if not (k == fresh) or not (fresh == k):
            raise Violation("history:not-equal-to-fresh", f"{desc}: not == to a fresh kind with the same features {sorted(k.features)}", case)
        if not (k <= fresh and fresh <= k):
            raise Violation("history:not-le-fresh", f"{desc}: <= does not hold both ways against a fresh kind with the same features", case)
        if hash(k) != hash(fresh):
            raise Violation("history:hash-differs", f"{desc}: == to a fresh kind with the same features but hashes differ", case)
        ctx.cls("history")
        if shrank_after_read:
            ctx.cls("history:unset-after-read")
            ctx.nontriv(["history", case["start"], case["version"], case["ops"]])

    return oracle


def shard(ctx):
    ctx.run_hypothesis(strategy(), oracle_factory(ctx), ctx.scale(20000, 1000000))
    global ALL
    ALL = all_features()
    ctx.run_hypothesis(history_strategy(), history_oracle_factory(ctx), ctx.scale(12000, 300000), salt=1)


def replay(ctx, case):
    if "ops" in case:
        global ALL
        ALL = all_features()
        return history_oracle_factory(ctx)(case)
    oracle_factory(ctx)(case)
