"""C17 — linearity and monotonicity analysis is sound."""

from __future__ import annotations

from fractions import Fraction
from itertools import product

from hypothesis import strategies as st

from harness.build import build
from harness.core import Abstain, Violation
from harness.refsim import Evaluator
from unified_planning.model.operators import OperatorKind as OK

PROPERTY = "C17"
TECHNIQUE = "property-based testing; exhaustive evaluation on small grids inside the declared types (exact Fractions) + structural linearity predicate"
RULE = (
    "Numeric expressions (depth <= 4: + - * /, constants of both signs and zero) over 2-3 bounded numeric fluents and 1-2 "
    "numeric parameters whose types are strictly positive, strictly negative, straddling zero or half-bounded; modes "
    "LinearChecker() and LinearChecker(problem) with some fluents static.  If reported linear and f is only in the positive "
    "(negative) set, the value must be non-decreasing (non-increasing) in f for every assignment of the other leaves on a "
    "grid of <= 5 points per leaf and all pairs v < v' of f.  A product with two fluent-dependent factors or a quotient with "
    "a fluent-dependent divisor (on the simplified expression) must not be reported linear.  Non-trivial = expression with "
    "*, / or a fluent on the right of -, reported linear with a non-empty one-sided set; distinct by hash of the case."
)
SHARDS = {"quick": 8, "thorough": 16}


@st.composite
def cases(draw):
    i = lambda lo, hi: draw(st.integers(lo, hi))
    nf, npar = i(2, 3), i(1, 2)
    fluents, params = [], []

    def ntype(kind_pool):
        kind = "int" if i(0, 2) > 0 else "real"
        shape = draw(st.sampled_from(kind_pool))
        if shape == "pos":
            lo = i(1, 3)
            t = [kind, lo, lo + i(0, 3)]
        elif shape == "neg":
            hi = -i(1, 3)
            t = [kind, hi - i(0, 3), hi]
        elif shape == "straddle":
            t = [kind, -i(0, 2), i(0, 2)]
        elif shape == "lower":
            t = [kind, i(-2, 2), None]
        else:
            t = [kind, None, i(-2, 2)]
        if kind == "real":
            t = [kind] + [None if x is None else str(x) for x in t[1:]]
        return t

    for k in range(nf):
        fluents.append({"name": f"x{k}", "type": ntype(["pos", "neg", "straddle"]), "params": [], "default": ["i", 0]})
    for k in range(npar):
        params.append([f"p{k}", ntype(["pos", "neg", "straddle", "lower", "upper"])])

    def const():
        if i(0, 3) == 0:
            return ["r", str(Fraction(i(-5, 5), 2))]
        return ["i", i(-3, 4)]

    def expr(d):
        m = i(0, 10)
        if d <= 0 or m < 3:
            k = i(0, 5)
            if k < 3:
                return ["fl", f"x{i(0, nf - 1)}"]
            if k < 5:
                return ["par", f"p{i(0, npar - 1)}"]
            return const()
        if m < 5:
            return ["+", expr(d - 1), expr(d - 1)]
        if m < 7:
            return ["-", expr(d - 1), expr(d - 1)]
        if m < 9:
            return ["*", expr(d - 1), expr(d - 1)]
        return ["/", expr(d - 1), expr(d - 1)]

    static = [f["name"] for f in fluents if i(0, 2) == 0]
    init = []
    for f in fluents:
        t = f["type"]
        lo = t[1] if t[1] is not None else t[2]
        f["default"] = ["i", int(Fraction(str(lo)))]
    return {"sig": {"fluents": fluents}, "params": params, "expr": expr(i(1, 4)), "static": static, "mode": draw(st.sampled_from(["plain", "plain", "problem"]))}


def grid(t):
    lo = None if t.lower_bound is None else Fraction(t.lower_bound)
    hi = None if t.upper_bound is None else Fraction(t.upper_bound)
    if lo is None:
        lo = hi - 4
    if hi is None:
        hi = lo + 4
    pts = {lo, hi, (lo + hi) / 2}
    if hi - lo >= 1:
        pts |= {lo + 1, hi - 1}
    if t.is_int_type():
        pts = {Fraction(p.numerator // p.denominator) for p in pts}
    return sorted(p for p in pts if lo <= p <= hi)


def contains_fluent(n):
    return n.is_fluent_exp() or any(contains_fluent(a) for a in n.args)


def structurally_nonlinear(n):
    if n.node_type == OK.TIMES and sum(1 for a in n.args if contains_fluent(a)) >= 2:
        return True
    if n.node_type == OK.DIV and contains_fluent(n.arg(1)):
        return True
    return any(structurally_nonlinear(a) for a in n.args)


def oracle_factory(ctx):
    from unified_planning.model import InstantaneousAction, Parameter
    from unified_planning.model.walkers import LinearChecker, Simplifier

    def oracle(case):
        b = build(case["sig"])
        b.params = {n: Parameter(n, b.typ(t), b.env) for n, t in case["params"]}
        try:
            e = b.expr(case["expr"])
        except ZeroDivisionError:
            raise Abstain("constant-division-by-zero-at-construction")
        mode = case["mode"]
        if mode == "problem":
            # every fluent not listed static gets an action writing it
            for f in case["sig"]["fluents"]:
                if f["name"] not in case["static"]:
                    a = InstantaneousAction("w_" + f["name"], _env=b.env)
                    a.add_effect(b.fluents[f["name"]], b.expr(f["default"]))
                    b.problem.add_action(a)
        try:
            if mode == "plain":
                lc = LinearChecker(environment=b.env)
                simp = b.env.simplifier.simplify(e)
            else:
                lc = LinearChecker(b.problem)
                simp = Simplifier(b.env, b.problem).simplify(e)
            lin, pos, neg = lc.get_fluents(e)
        except ZeroDivisionError:
            raise Abstain("constant-division-by-zero")
        except Exception as ex:
            raise Violation(f"exception:{type(ex).__name__}", f"get_fluents({e}) raised {ex!r}", case)
        if lin and structurally_nonlinear(simp):
            raise Violation("nonlinear-reported-linear", f"{e} (simplified {simp}) reported linear", case)
        E = Evaluator(b.problem)
        fl_names = [f["name"] for f in case["sig"]["fluents"]]
        pinned = {}
        if mode == "problem":
            for f in case["sig"]["fluents"]:
                if f["name"] in case["static"]:
                    pinned[f["name"]] = [Fraction(f["default"][1])]
        fdoms = {n: pinned.get(n) or grid(b.fluents[n].type) for n in fl_names}
        pdoms = {n: grid(b.typ(t)) for n, t in case["params"]}
        one_sided = []
        if lin:
            for fe in pos - neg:
                one_sided.append((fe, +1))
            for fe in neg - pos:
                one_sided.append((fe, -1))
        checked = 0
        for fe, sign in one_sided:
            if fe.args:
                continue
            fname = fe.fluent().name
            if fname in pinned:
                continue
            others = [n for n in fl_names if n != fname]
            for combo in product(*[fdoms[n] for n in others], *[pdoms[n] for n, _ in case["params"]]):
                state = {(n, ()): v for n, v in zip(others, combo)}
                pb = {n: v for (n, _), v in zip(case["params"], combo[len(others):])}
                vals = []
                try:
                    for v in fdoms[fname]:
                        state[(fname, ())] = v
                        vals.append(E.ev(e, state, pb, {})[0])
                except Abstain:
                    continue  # division by zero under this assignment
                checked += 1
                for a, c in zip(vals, vals[1:]):
                    if (sign > 0 and c < a) or (sign < 0 and c > a):
                        which = "div" if _has(case["expr"], "/") else "times" if _has(case["expr"], "*") else "minus" if _has(case["expr"], "-") else "other"
                        raise Violation(
                            f"not-monotone:{which}",
                            f"{e}: reported linear with {fname} only {'positive' if sign > 0 else 'negative'}, but values over {fname}={list(map(str, fdoms[fname]))} are {list(map(str, vals))} with others {dict((k[0], str(v)) for k, v in state.items() if k[0] != fname)} params { {k: str(v) for k, v in pb.items()} }",
                            case,
                        )
        ctx.cls("linear" if lin else "nonlinear")
        ctx.cls("mode:" + mode)
        interesting = _has(case["expr"], "*") or _has(case["expr"], "/") or _minus_rhs_fluent(case["expr"])
        if lin and one_sided and checked and interesting:
            ctx.nontriv(case, {"expr": str(e), "positive": sorted(map(str, pos)), "negative": sorted(map(str, neg))})

    return oracle


def _has(spec, op):
    if isinstance(spec, list) and spec:
        return spec[0] == op or any(_has(s, op) for s in spec[1:])
    return False


def _minus_rhs_fluent(spec):
    if isinstance(spec, list) and spec:
        if spec[0] == "-" and _has(spec[2], "fl"):
            return True
        return any(_minus_rhs_fluent(s) for s in spec[1:])
    return False


def shard(ctx):
    ctx.run_hypothesis(cases(), oracle_factory(ctx), ctx.scale(2500, 80000))


def replay(ctx, case):
    oracle_factory(ctx)(case)
