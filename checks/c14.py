"""C14 — shared environment walkers are history-independent, even after failures."""

from __future__ import annotations

from hypothesis import strategies as st

from harness import gen
from harness.build import build
from harness.core import Violation
from harness.exprcase import build_case

PROPERTY = "C14"
TECHNIQUE = "model-based history testing: every call on a long-lived shared environment is compared with the same call on a freshly built environment"
RULE = (
    "A case = a small signature, a pool of 3-6 expressions (some 'poisoned' with a division by a fluent or an interpreted "
    "function that raises) and a history of <= 30 (quick) / 50 calls on ONE environment: simplify, substitute(map) (maps "
    "that make a divisor zero fail inside the walk), constructor calls (some ill-typed), free_vars_extractor.get, "
    "free_vars_oracle, names_extractor, remove_quantifiers on a long-lived ExpressionQuantifiersRemover interleaved with "
    "add_object on its problem, StateEvaluator.evaluate on a long-lived evaluator with states that miss fluents (poisonous "
    "divisions also sit inside quantifier bodies nested under other operators).  Each call is repeated in a fresh environment built from the same specs; outcomes (exception "
    "class, or printed result) must agree and every shared walker's stack must be empty after each call.  Non-trivial = "
    "history with >= 1 failing call followed by >= 1 later call on an expression sharing a sub-expression with it; distinct "
    "by hash of the history."
)
SHARDS = {"quick": 8, "thorough": 16}
PROFILE = gen.Profile(ifuns=True, max_fluents=5, max_objects=3, int_params=False, exists_eq_bias=True, undefined=False)

OPS = ["simplify", "substitute", "substitute", "construct", "freevars", "freevars_oracle", "names", "rmquant", "rmquant", "add_object", "evaluate", "type"]


@st.composite
def cases(draw):
    g = gen.Gen(draw, PROFILE)
    g.gen_types()
    g.gen_fluents()
    # make sure there is a 0-ary numeric fluent to act as poisonous divisor and a 0-ary bool fluent
    g.fluents.append({"name": "nz", "type": ["int", None, None], "params": [], "default": ["i", 1]})
    g.fluents.append({"name": "bz", "type": "bool", "params": [], "default": ["b", True]})
    g.gen_ifuns()
    g.ifuns.append({"name": "boom", "params": [["int", None, None]], "fn": ["lin", [1], 0, 5], "ret": "bool", "raises_on": 0})
    params = [[f"p{k}", ["user", g.pick(g.types)[0]]] for k in range(g.i(0, 2))]
    free = [[f"w{k}", ["user", g.pick(g.types)[0]]] for k in range(g.i(0, 1))]
    scope = {"params": [(n, t) for n, t in params], "vars": [(n, t) for n, t in free]}
    pool = []
    for _ in range(g.i(3, 6)):
        k = g.i(0, 5)
        e = g.bool_expr(scope, g.i(1, 3))
        if k == 0:
            e = ["and", e, ["<=", ["/", g.num_expr(scope, 1), ["fl", "nz"]], ["i", 3]]]
        elif k == 1:
            e = ["or", ["ifn", "boom", ["fl", "nz"]], e]
        elif k == 2:
            e = ["and", ["fl", "bz"], e, ["<", ["/", ["i", 6], ["+", ["fl", "nz"], ["i", 1]]], g.num_expr(scope, 1)]]
        elif k == 3:
            # the poisonous division sits in a quantifier body nested under another operator
            qv = ["q0", ["user", g.pick(g.types)[0]]]
            qs = {"params": scope["params"], "vars": scope["vars"] + [(qv[0], qv[1])]}
            body = ["and", g.bool_expr(qs, 1), ["<=", ["/", g.num_expr(qs, 1), ["fl", "nz"]], ["i", 3]]]
            e = [g.pick(["and", "or"]), [g.pick(["exists", "forall"]), [qv], body], e]
        pool.append(e)
    nops = 30
    ops = []
    for _ in range(g.i(2, nops)):
        op = g.pick(OPS)
        o = {"op": op, "e": g.i(0, len(pool) - 1)}
        if op == "substitute":
            m = g.i(0, 3)
            if m == 0:
                o["map"] = [[["fl", "nz"], ["i", g.pick([0, 0, -1, 2])]]]
            elif m == 1:
                o["map"] = [[["fl", "bz"], g.bool_expr(scope, 1)]]
            elif m == 2:
                o["map"] = [[["fl", "nz"], ["i", 0]], [["fl", "bz"], ["b", False]]]
            else:
                o["map"] = [[["fl", "nz"], g.num_expr(scope, 1, want_int=True)]]
        elif op == "construct":
            k = g.i(0, 3)
            if k == 0:
                o["spec"] = ["and", ["fl", "nz"], ["fl", "bz"]]  # ill-typed
            elif k == 1:
                o["spec"] = ["+", ["fl", "bz"], ["i", 1]]  # ill-typed
            elif k == 2:
                o["spec"] = ["not", pool[o["e"]]]
            else:
                o["spec"] = ["/", ["i", 1], ["-", ["i", 2], ["i", 2]]]  # constant zero divisor
        elif op == "add_object":
            o["name"] = f"xo{len(ops)}"
            o["type"] = g.pick(g.types)[0]
        elif op == "evaluate":
            o["missing"] = g.i(0, 3)  # how many fluents are missing in the state
            o["nz"] = g.pick([0, 1, 1, 2, -1])
        ops.append(o)
    sig = {"types": [list(t) for t in g.types], "objects": [list(o) for o in g.objects], "fluents": g.fluents, "ifuns": g.ifuns}
    return {"sig": sig, "params": params, "free": free, "pool": pool, "ops": ops}


class Side:
    """one environment with everything built from the case"""

    def __init__(self, case):
        from unified_planning.model.walkers import StateEvaluator

        self.b = build_case(case)
        b = self.b
        # the raising interpreted function
        model = b.ifun_models.get("boom")
        if model is not None:
            orig = model.pyvalue

            def pyvalue(args, _orig=orig):
                if args and args[0] == 0:
                    raise RuntimeError("boom")
                return _orig(args)

            model.pyvalue = pyvalue
        self.pool = [b.expr(e) for e in case["pool"]]
        self.se = StateEvaluator(b.problem)
        from unified_planning.model.walkers import ExpressionQuantifiersRemover

        self.qr = ExpressionQuantifiersRemover(b.env)  # long-lived, like the simulator's / compilers' own

    def walkers(self):
        env = self.b.env
        return {
            "simplifier": env.simplifier,
            "substituter": env.substituter,
            "type_checker": env.type_checker,
            "free_vars_extractor": env.free_vars_extractor,
            "free_vars_oracle": env.free_vars_oracle,
            "names_extractor": env.names_extractor,
            "state_evaluator": self.se,
            "quantifiers_remover": self.qr,
        }

    def do(self, o):
        from unified_planning.model import UPState
        from unified_planning.model.walkers import ExpressionQuantifiersRemover

        b, env = self.b, self.b.env
        e = self.pool[o["e"]]
        op = o["op"]
        try:
            if op == "simplify":
                return ("ok", str(e.simplify()))
            if op == "substitute":
                m = {b.expr(k): b.expr(v) for k, v in o["map"]}
                return ("ok", str(e.substitute(m)))
            if op == "construct":
                n = b.expr(o["spec"])
                return ("ok", f"{n} : {n.type}")
            if op == "type":
                return ("ok", str(env.type_checker.get_type(e)))
            if op == "freevars":
                return ("ok", sorted(map(str, env.free_vars_extractor.get(e))))
            if op == "freevars_oracle":
                return ("ok", sorted(map(str, env.free_vars_oracle.get_free_variables(e))))
            if op == "names":
                return ("ok", sorted(env.names_extractor.extract_names(e)))
            if op == "rmquant":
                return ("ok", str(self.qr.remove_quantifiers(e, b.problem)))
            if op == "add_object":
                b.problem.add_object(o["name"], b.types[o["type"]])
                return ("ok", len(b.problem.all_objects))
            if op == "evaluate":
                from harness.refsim import ground_fluents
                from harness.simcmp import ground_fluent_exps
                from harness.refsim import RefSim

                ref = RefSim(b.problem)
                vals = {}
                gfe = ground_fluent_exps(b.problem, ref)
                for idx, (key, fe) in enumerate(gfe):
                    if idx < o["missing"]:
                        continue
                    t = fe.type
                    if key[0] == "nz":
                        vals[fe] = b.em.Int(o["nz"])
                    elif t.is_bool_type():
                        vals[fe] = b.em.Bool(idx % 2 == 0)
                    elif t.is_user_type():
                        objs = list(b.problem.objects(t))
                        if objs:
                            vals[fe] = b.em.ObjectExp(objs[idx % len(objs)])
                    elif t.is_int_type():
                        lo = t.lower_bound if t.lower_bound is not None else (t.upper_bound - 2 if t.upper_bound is not None else 0)
                        vals[fe] = b.em.Int(lo)
                    else:
                        lo = t.lower_bound if t.lower_bound is not None else (t.upper_bound if t.upper_bound is not None else 0)
                        vals[fe] = b.em.Real(lo) if hasattr(lo, "denominator") and not isinstance(lo, int) else b.em.Int(int(lo))
                state = UPState(vals, b.problem)
                # close the expression: bind parameters and free variables to the first object of their type
                sub = {}
                for p in b.params.values():
                    objs = list(b.problem.objects(p.type))
                    if not objs:
                        return ("skip", None)
                    sub[b.em.ParameterExp(p)] = b.em.ObjectExp(objs[0])
                closed = e.substitute(sub) if sub else e
                fv = env.free_vars_oracle.get_free_variables(closed)
                if fv:
                    vsub = {}
                    for v in fv:
                        objs = list(b.problem.objects(v.type))
                        if not objs:
                            return ("skip", None)
                        vsub[b.em.VariableExp(v)] = b.em.ObjectExp(objs[0])
                    closed = closed.substitute(vsub)
                return ("ok", str(self.se.evaluate(closed, state)))
        except Exception as ex:
            return ("raised", type(ex).__name__)
        raise AssertionError(op)


def shares_subexpression(a, b):
    def subs(n, acc):
        if n.args:
            acc.add(str(n))
        for x in n.args:
            subs(x, acc)
        if n.is_fluent_exp():
            acc.add(str(n))
        return acc

    return bool(subs(a, set()) & subs(b, set()))


def run(ctx, case):
    shared = Side(case)
    failed_exprs = []
    nontriv = False
    for step, o in enumerate(case["ops"]):
        got = shared.do(o)
        fresh_side = Side(case)
        for prev in case["ops"][:step]:
            if prev["op"] == "add_object":  # the problem's objects are an argument of quantifier removal
                fresh_side.do(prev)
        fresh = fresh_side.do(o)
        if got != fresh:
            prev_fail = any(Side(case).do(p)[0] == "raised" for p in case["ops"][:step])
            raise Violation(
                f"history-dependent:{o['op']}" + (":after-failure" if failed_exprs else ""),
                f"step {step} {o}: on the shared environment -> {got}, on a fresh environment -> {fresh}",
                case,
                {"step": step},
            )
        for name, wk in shared.walkers().items():
            st_ = getattr(wk, "stack", None)
            if st_:
                raise Violation(f"stack-not-empty:{name}", f"after step {step} {o['op']} ({got[0]}) the shared {name} has {len(st_)} pending stack entries", case, {"step": step})
        if failed_exprs and any(shares_subexpression(shared.pool[o["e"]], f) for f in failed_exprs):
            nontriv = True
        if got[0] == "raised":
            failed_exprs.append(shared.pool[o["e"]])
            ctx.cls("failed:" + o["op"] + ":" + got[1])
        else:
            ctx.cls("ok:" + o["op"])
    if nontriv:
        ctx.nontriv(case["ops"], {"pool": case["pool"], "ops": case["ops"]})


def shard(ctx):
    ctx.run_hypothesis(cases(), lambda case: run(ctx, case), ctx.scale(500, 8000))


def replay(ctx, case):
    run(ctx, case)
