"""C28 — timed-to-sequential plans convert back to valid temporal plans."""

from __future__ import annotations

from fractions import Fraction

from hypothesis import strategies as st

from harness import gen
from harness.build import build
from harness.core import Abstain, HarnessError, Violation
from harness.explore import Explorer
from harness.refsim import const_value
from harness.reftt import RefTT
from harness.simcmp import params_fnodes

PROPERTY = "C28"
TECHNIQUE = "property-based testing; all bounded plans of the compiled (instantaneous) problem enumerated with the reference simulator, converted back and judged by the reference temporal semantics"
RULE = (
    "Durative problems inside TimedToSequential.supported_kind(): at-start / at-end / over-all conditions, at-start / at-end "
    "effects (no conditional effects, no intermediate timings, no timed effects / goals), durations fixed / closed / left-open "
    "/ right-open / open with constant, parameter- or fluent-dependent bounds, with and without problem.epsilon, both "
    "remove_unused_fluents settings.  All valid plans of the compiled problem up to length 3 are enumerated (reference "
    "simulator), converted with plan_back_conversion and must be accepted by the reference temporal semantics for the "
    "original problem (UP's own TimeTriggeredPlanValidator verdict is recorded too).  Non-trivial = compiled plan containing a "
    "durative action whose interval is not a closed constant interval, or >= 2 durative actions; distinct by (problem, plan)."
)
SHARDS = {"quick": 8, "thorough": 16}
PROFILE = gen.Profile(
    ifuns=False, bounded=False, invariants=False, undefined=False, max_fluents=4, max_objects=3, max_arity=1, quantifiers=True,
    nested_fluent_args=False, forall_effects=False, division=False, cond_effects=False, temporal_delays=False, timed_items=False, int_params=True,
)


@st.composite
def cases(draw):
    g = gen.TGen(draw, PROFILE)
    p = g.temporal_problem()
    nums = [f for f in p["fluents"] if f["type"] != "bool" and f["type"][0] in ("int", "real") and not f.get("nowrite") and all(pt != "bool" and pt[0] == "user" and g.objs_of(pt[1]) for _, pt in f["params"])]
    durs = [a for a in p["actions"] if "dur" in a]
    if nums and durs and g.b(0.25):
        # "start-effect chain": several increase / decrease effects at start on one numeric fluent, whose result a
        # later condition of the same action reads (the compiler has to chain them through its substitution)
        a, f = g.pick(durs), g.pick(nums)
        fl = ["fl", f["name"]] + [["obj", g.pick(g.objs_of(pt[1]))] for _, pt in f["params"]]
        a["effs"] = [e for e in a["effs"] if e["fl"][1] != f["name"]]
        for _ in range(g.i(2, 3)):
            a["effs"].append({"kind": g.pick(["inc", "dec"]), "fl": fl, "val": ["i", g.i(1, 3)], "cond": None, "forall": [], "t": ["s", 0]})
        iv = g.pick([[["e", 0], ["e", 0], False, False], [["s", 0], ["e", 0], True, False]])
        c = ["i", g.i(-3, 6)]
        a["conds"].append({"iv": iv, "e": g.pick([["<=", fl, c], ["<=", c, fl], ["=", fl, c], ["<", c, fl]])})
    return {"problem": p, "epsilon": draw(st.sampled_from([None, None, "1/10", "1/2"])), "remove_unused": draw(st.booleans())}


def check(ctx, case):
    from unified_planning.engines import CompilationKind
    from unified_planning.engines.compilers.timed_to_sequential import TimedToSequential
    from unified_planning.engines.plan_validator import TimeTriggeredPlanValidator
    from unified_planning.engines import ValidationResultStatus
    from unified_planning.model import DurativeAction
    from unified_planning.plans import ActionInstance, SequentialPlan

    spec = dict(case["problem"])
    spec["epsilon"] = case["epsilon"]
    b = build(spec)
    problem, em = b.problem, b.em
    if not TimedToSequential.supports(problem.kind):
        raise HarnessError(f"profile left the supported kind: {problem.kind.features - TimedToSequential.supported_kind().features}")
    if not any(isinstance(a, DurativeAction) for a in problem.actions):
        return
    comp = TimedToSequential(remove_unused_fluents=case["remove_unused"])
    try:
        res = comp.compile(problem, CompilationKind.TIMED_TO_SEQUENTIAL)
    except Exception as e:
        # compile failures are C08's subject (see DESIGN section 7); C28 is about the back conversion
        ctx.cls(f"compile-raised:{type(e).__name__}")
        return
    cex = Explorer(res.problem)
    try:
        plans, _ = cex.valid_plans(3, max_nodes=800, max_plans=25)
    except Abstain as ab:
        ctx.abstain(ab.reason)
        return
    ref = RefTT(problem)
    for steps, states in plans:
        if not steps:
            continue
        ctx.evaluations += 1
        desc = [[a.name, list(map(str, args))] for a, args in steps]
        sp = SequentialPlan([ActionInstance(a, params_fnodes(res.problem, em, a, args)) for a, args in steps], b.env)
        try:
            ttp = res.plan_back_conversion(sp)
        except Exception as e:
            raise Violation(f"back-conversion-exception:{type(e).__name__}", f"{e!r} on compiled plan {desc}", case, {"plan": desc})
        plan = []
        for s, ai, d in ttp.timed_actions:
            plan.append((Fraction(s), ai.action, tuple(const_value(p) for p in ai.actual_parameters), None if d is None else Fraction(d)))
        tdesc = [[str(s), a.name, list(map(str, args)), None if d is None else str(d)] for s, a, args, d in plan]
        try:
            valid, why = ref.validate(plan)
        except Abstain as ab:
            ctx.abstain(ab.reason)
            continue
        if not valid:
            try:
                upv = TimeTriggeredPlanValidator(environment=b.env).validate(problem, ttp).status == ValidationResultStatus.VALID
            except Exception as e:
                upv = f"raised {type(e).__name__}"
            shape = ""
            if why == "duration":
                for s, a, args, d in plan:
                    if isinstance(a, DurativeAction):
                        di = a.duration
                        shape = ":" + ("left-open" if di.is_left_open() else "closed-left") + ("+right-open" if di.is_right_open() else "")
                        if not di.lower.is_constant():
                            shape += ":nonconstant-lower"
                        break
            if why in ("goal", "condition") and _start_end_same_fluent(plan):
                shape += ":start+end-effects-on-one-fluent"
            elif why == "condition" and _effect_vs_own_condition(plan) and _opposite_bool_effects_one_timing(plan):
                # (numeric and single Boolean start effects ARE substituted into later conditions correctly; the
                # known finding needs opposite Boolean assignments at one timing, where the last one wins in the
                # substitution but add-after-delete decides in the original)
                shape += ":action-writes-fluent-of-its-own-later-condition"
            elif why in ("goal", "condition") and _opposite_bool_effects_one_timing(plan):
                # add-after-delete inside ONE timing of a durative action (f := true and f := false at end): the
                # compiled instantaneous action keeps them in an order where the deletion wins (known finding)
                shape += ":opposite-boolean-effects-at-one-timing"
            elif why in ("goal", "condition") and _aliased_start_targets(plan):
                # a start effect on f(p) and another occurrence f(o) in the same action, executed with p = o: the
                # compiler's substitution is keyed by the lifted expressions and treats them as different fluents
                # (known finding)
                shape += ":aliased-start-effect-targets"
            elif why in ("goal", "condition") and _multi_incdec_one_timing(plan):
                # two or more increase / decrease effects on one fluent at the END of a durative action: the
                # compiler turns each into an assignment f := f +- c from the same pre-state value, so they do not
                # accumulate (known finding)
                shape += ":several-increase-decrease-on-one-fluent-at-end"
            sig = f"converted-plan-invalid:{why}{shape}"
            if shape.endswith(":several-increase-decrease-on-one-fluent-at-end"):
                sig = "converted-plan-invalid:several-increase-decrease-on-one-fluent-at-end"
            if shape.endswith(":aliased-start-effect-targets"):
                sig = "converted-plan-invalid:aliased-start-effect-targets"
            if shape.endswith(":start+end-effects-on-one-fluent"):
                sig = "converted-plan-invalid:start+end-effects-on-one-fluent"
            if shape.endswith(":opposite-boolean-effects-at-one-timing"):
                sig = "converted-plan-invalid:opposite-boolean-effects-at-one-timing"
            raise Violation(
                sig,
                f"compiled plan {desc} is valid for the compiled problem but converts back to {tdesc}, rejected by the reference temporal semantics ({why}); UP's time-triggered validator says valid={upv}",
                case,
                {"plan": desc, "ttp": tdesc},
            )
        nd = [a for _, a, _, d in plan if isinstance(a, DurativeAction)]
        interesting = len(nd) >= 2 or any(a.duration.is_left_open() or a.duration.is_right_open() or not a.duration.lower.is_constant() or a.duration.lower != a.duration.upper for a in nd)
        ctx.cls("interesting" if interesting else "plain")
        if nd and interesting:
            ctx.nontriv([spec_hash(spec), desc, case["remove_unused"]])


def _start_end_same_fluent(plan):
    from unified_planning.model import DurativeAction

    for _, a, _, _ in plan:
        if isinstance(a, DurativeAction):
            by_t = {}
            for t, effs in a.effects.items():
                by_t[t.is_from_start()] = by_t.get(t.is_from_start(), set()) | {e.fluent.fluent().name for e in effs}
            if by_t.get(True, set()) & by_t.get(False, set()):
                return True
    return False


def _aliased_start_targets(plan):
    """a start-effect target f(..p..) of an executed durative action and a syntactically different occurrence of f in the
    same action (another effect target, a condition, an effect value) that denote the same ground fluent under the
    plan's parameter binding"""
    from unified_planning.model import DurativeAction
    from unified_planning.model.walkers import FreeVarsExtractor

    fve = FreeVarsExtractor()
    for _, a, args, _ in plan:
        if isinstance(a, DurativeAction):
            sub = {p.name: str(v) for p, v in zip(a.parameters, args)}
            ground = lambda fe: fe.fluent().name + "(" + ",".join(sub.get(str(x), str(x)) for x in fe.args) + ")"
            occ = set()
            for cs in a.conditions.values():
                for c in cs:
                    occ |= set(fve.get(c))
            starts = []
            for t, effs in a.effects.items():
                for e in effs:
                    occ.add(e.fluent)
                    occ |= set(fve.get(e.value)) | set(fve.get(e.condition))
                    if t.is_from_start():
                        starts.append(e.fluent)
            for tgt in starts:
                for o in occ:
                    if o.fluent() == tgt.fluent() and str(o) != str(tgt) and ground(o) == ground(tgt):
                        return True
    return False


def _multi_incdec_one_timing(plan):
    from unified_planning.model import DurativeAction

    for _, a, _, _ in plan:
        if isinstance(a, DurativeAction):
            for t, effs in a.effects.items():
                if t.is_from_start():
                    continue  # start-time effects are chained through the substitution and do accumulate
                n = {}
                for e in effs:
                    if e.is_increase() or e.is_decrease():
                        n[e.fluent.fluent().name] = n.get(e.fluent.fluent().name, 0) + 1
                if any(v >= 2 for v in n.values()):
                    return True
    return False


def _opposite_bool_effects_one_timing(plan):
    from unified_planning.model import DurativeAction

    for _, a, _, _ in plan:
        if isinstance(a, DurativeAction):
            for t, effs in a.effects.items():
                vals = {}
                for e in effs:
                    if e.fluent.type.is_bool_type() and e.value.is_bool_constant():
                        vals.setdefault(str(e.fluent), set()).add(e.value.bool_constant_value())
                if any(len(v) == 2 for v in vals.values()):
                    return True
    return False


def _effect_vs_own_condition(plan):
    from unified_planning.model import DurativeAction

    def fl(e, acc):
        if e.is_fluent_exp():
            acc.add(e.fluent().name)
        for a in e.args:
            fl(a, acc)
        return acc

    for _, a, _, _ in plan:
        if isinstance(a, DurativeAction):
            written = {e.fluent.fluent().name for t, effs in a.effects.items() for e in effs}
            for iv, cs in a.conditions.items():
                if iv.lower.is_from_start() and iv.upper.is_from_start() and iv.lower.delay == 0 and iv.upper.delay == 0:
                    continue  # pure at-start condition
                for c in cs:
                    if fl(c, set()) & written:
                        return True
    return False


def spec_hash(spec):
    from harness.core import case_hash

    return case_hash(spec)


def shard(ctx):
    def oracle(case):
        ctx.evaluations -= 1
        check(ctx, case)

    ctx.run_hypothesis(cases(), oracle, ctx.scale(6000, 60000))


def replay(ctx, case):
    check(ctx, case)
