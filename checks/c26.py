"""C26 — time-triggered <-> STN plan conversions are faithful."""

from __future__ import annotations

from fractions import Fraction

from harness.build import build
from harness.core import Abstain, HarnessError, Violation
from harness.reftt import RefTT
from harness.simcmp import params_fnodes

PROPERTY = "C26"
TECHNIQUE = "property-based testing; valid time-triggered plans (filtered by the reference temporal semantics) converted to STN and back, consistency / pinning / reference re-validation"
RULE = (
    "Temporal and instantaneous problems from the C05 grammar with plans of 1-4 timed instances on a half-integer grid; goals are "
    "dropped and a plan is grown step by step, keeping a generated step only while the reference temporal semantics still "
    "accepts the plan (each step list is tried twice, the second time two time units later, so causally dependent and "
    "overlapping actions are common).  Oracle: convert_to(STN_PLAN) does not raise "
    "and is consistent; the STN rebuilt from get_constraints() plus pinning constraints (every start at its original time, "
    "every duration fixed, written in the converter's own (lower, upper, node) form) is still consistent; converting back "
    "gives the same action instances and a plan the reference semantics accepts.  Non-trivial = valid plan with >= 2 actions "
    "of which two overlap or share an instant, or with a timed effect / goal; distinct by (problem, plan)."
)
SHARDS = {"quick": 8, "thorough": 16}


def check(ctx, case):
    from checks.c05 import duration_for
    from unified_planning.model import DurativeAction, TimepointKind
    from unified_planning.plans import ActionInstance, PlanKind, TimeTriggeredPlan
    from unified_planning.plans.stn_plan import STNPlan, STNPlanNode

    # goals play no role in the conversions: without them far more generated schedules are valid plans
    b = build(dict(case["problem"], goals=[]))
    problem, em = b.problem, b.em
    ref = RefTT(problem)
    insts = [(a, args) for a in problem.actions for args in ref.sim.instances(a)]
    if not insts:
        return
    for steps in case["plans"]:
        # constructive: a generated step is kept only if the plan stays valid with it (so plans with several
        # causally related, overlapping actions are common instead of being filtered away as a whole)
        plan = []
        for st_ in steps + [dict(x, start=str(Fraction(str(x["start"])) + 2)) for x in steps]:
            a, args = insts[(st_["a"] * 7 + st_["args"]) % len(insts)]
            start = Fraction(st_["start"])
            dur = duration_for(b, ref, a, args, st_) if isinstance(a, DurativeAction) else None
            cand = plan + [(start, a, args, dur)]
            try:
                okc, _ = ref.validate(cand)
            except Abstain:
                okc = False
            if okc:
                plan = cand
        if not plan:
            ctx.cls("generated-invalid")
            continue
        desc = [[str(s), a.name, list(map(str, args)), None if d is None else str(d)] for s, a, args, d in plan]
        try:
            valid, why = ref.validate(plan)
        except Abstain as ab:
            ctx.abstain(ab.reason)
            continue
        if not valid:
            ctx.cls("generated-invalid")
            continue
        ctx.evaluations += 1
        ctx.cls("generated-valid")
        ais = [ActionInstance(a, params_fnodes(problem, em, a, args)) for s, a, args, d in plan]
        ttp = TimeTriggeredPlan([(s, ai, d) for (s, a, args, d), ai in zip(plan, ais)], b.env)
        try:
            stn = ttp.convert_to(PlanKind.STN_PLAN, problem)
        except Exception as e:
            raise Violation(f"to-stn-exception:{type(e).__name__}", f"{e!r} on {desc}", case, {"plan": desc})
        if not stn.is_consistent():
            raise Violation("stn-inconsistent", f"the STN plan of the valid plan {desc} is inconsistent", case, {"plan": desc})
        # pin the original schedule
        cons = {k: list(v) for k, v in stn.get_constraints().items()}
        gs = STNPlanNode(TimepointKind.GLOBAL_START)
        for (s, a, args, d), ai in zip(plan, ais):
            sn = STNPlanNode(TimepointKind.START, ai)
            cons.setdefault(gs, []).append((s, s, sn))
            if d is not None:
                cons.setdefault(sn, []).append((d, d, STNPlanNode(TimepointKind.END, ai)))
        try:
            pinned = STNPlan(cons, b.env)
            ok = pinned.is_consistent()
        except Exception as e:
            raise Violation(f"pinning-exception:{type(e).__name__}", f"{e!r} on {desc}", case, {"plan": desc})
        if not ok:
            raise Violation("original-times-violate-stn", f"the original start times / durations of {desc} do not satisfy the STN constraints {stn.get_constraints()}", case, {"plan": desc})
        try:
            back = stn.convert_to(PlanKind.TIME_TRIGGERED_PLAN, problem)
        except Exception as e:
            raise Violation(f"to-ttp-exception:{type(e).__name__}", f"{e!r} on {desc}", case, {"plan": desc})
        got = sorted((id(ai) for _, ai, _ in back.timed_actions))
        if got != sorted(id(ai) for ai in ais):
            raise Violation("back-conversion-different-instances", f"{desc} -> {back}", case, {"plan": desc})
        by_ai = {id(ai): (a, args) for (s, a, args, d), ai in zip(plan, ais)}
        plan2 = [(Fraction(s), *by_ai[id(ai)], None if d is None else Fraction(d)) for s, ai, d in back.timed_actions]
        desc2 = [[str(s), a.name, list(map(str, args)), None if d is None else str(d)] for s, a, args, d in plan2]
        try:
            valid2, why2 = RefTT(problem).validate(plan2)
        except Abstain as ab:
            ctx.abstain("back:" + ab.reason)
            continue
        if not valid2:
            trig = ""
            if why2 == "duration" and _duration_reads_written_fluent(problem):
                # the converters derive orderings from conditions and effects only, not from the fluents a duration
                # bound reads (known finding)
                trig = ":duration-reads-written-fluent"
            elif why2 in ("condition", "goal") and _end_relative_intermediate(plan):
                # a condition window / effect of an executed action placed relative to the action's END with a non-zero
                # offset (end - 1/2): such intermediate points are not ordered against timed effects (known finding)
                trig = ":end-relative-intermediate-timing"
            raise Violation(
                f"back-converted-plan-invalid:{why2}{trig}",
                f"valid plan {desc} -> STN -> {desc2}, which the reference semantics rejects ({why2})",
                case,
                {"plan": desc, "back": desc2},
            )
        info = ref.info
        overlap = any(
            i < j and plan[i][0] <= plan[j][0] <= plan[i][0] + (plan[i][3] or 0) or (i < j and plan[j][0] <= plan[i][0] <= plan[j][0] + (plan[j][3] or 0))
            for i in range(len(plan))
            for j in range(len(plan))
        )
        if (len(plan) >= 2 and overlap) or problem.timed_effects or problem.timed_goals:
            ctx.nontriv([spec_hash(case["problem"]), desc])
            ctx.cls("nontrivial")


def _end_relative_intermediate(plan):
    from unified_planning.model import DurativeAction

    for _, a, _, _ in plan:
        if isinstance(a, DurativeAction):
            tps = [t for t in a.effects] + [x for iv in a.conditions for x in (iv.lower, iv.upper)]
            if any(t.is_from_end() and t.delay != 0 for t in tps):
                return True
    return False


def _duration_reads_written_fluent(problem):
    from unified_planning.model import DurativeAction

    written = set()
    for a in problem.actions:
        effs = [e for l in a.effects.values() for e in l] if isinstance(a, DurativeAction) else list(a.effects)
        written |= {e.fluent.fluent().name for e in effs}
    fve = problem.environment.free_vars_extractor
    for a in problem.actions:
        if isinstance(a, DurativeAction):
            for bnd in (a.duration.lower, a.duration.upper):
                if any(f.fluent().name in written for f in fve.get(bnd)):
                    return True
    return False


def spec_hash(spec):
    from harness.core import case_hash

    return case_hash(spec)


def shard(ctx):
    from checks.c05 import cases

    def oracle(case):
        ctx.evaluations -= 1
        check(ctx, case)

    ctx.run_hypothesis(cases(), oracle, ctx.scale(15000, 120000))


def replay(ctx, case):
    check(ctx, case)
