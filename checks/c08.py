"""C08 — compilers succeed and produce well-formed results inside their supported kind."""

from __future__ import annotations

from harness import comp
from harness.comp import Compiled, describe
from harness.core import Abstain, Violation
from unified_planning.model.operators import OperatorKind as OK

PROPERTY = "C08"
TECHNIQUE = "property-based testing with adversarial identifiers; validity predicate over the compilation result (well-formedness walker, usable plan back-conversion)"
RULE = (
    "Problems drawn inside each compiler's supported kind (10 compilers + 6 pipelines) with identifiers for types, objects, "
    "fluents and actions taken from an adversarial pool (separator-laden names such as a_b / b_c / a / c, prefixes of one "
    "another, case variants, digits, names equal to the mangled form of others).  Oracle: compile does not raise (documented "
    "rejections excepted); in the result every name is unique per category, every fluent / object / parameter / variable / "
    "type referenced in actions, goals, constraints, initial values and metrics is declared, kind is computable, "
    "plan_back_conversion exists and converts the empty plan and a one-step plan of every compiled action, and "
    "map_back_action_instance returns an instance of an original action (or None).  Non-trivial = problem where two "
    "identifiers collide after '_'-concatenation / are prefixes or case variants of one another, or the compiler invented a "
    "fresh name; distinct by (problem, compiler)."
)
SHARDS = {"quick": 16, "thorough": 16}
CASE_TIMEOUT_S = 12  # CPU seconds per case; DNF / powerset compilations that explode are inconclusive, not judged

NAME_POOL = [
    "a", "b", "c", "a_b", "b_c", "a_b_c", "c_d", "d", "A", "B", "Loc", "loc", "LOC", "x1", "x_1", "x", "1x".replace("1x", "x1y"),
    "move", "move_a", "move_a_b", "f", "f_0", "f_0_0", "not_f", "o", "o_0", "t", "T", "T_0", "g_o", "go", "a0", "a_0", "a0_0",
]


NAME_POOLS = {"o": ["a_b", "c", "a", "b_c", "a_b_c", "b", "A", "x_1", "x", "o_0"], "*": NAME_POOL}


def walk_expr(problem, e, params, bound, errs, where):
    t = e.node_type
    if t == OK.FLUENT_EXP:
        f = e.fluent()
        if not problem.has_fluent(f.name) or problem.fluent(f.name) != f:
            errs.append(f"{where}: fluent {f.name} not declared in the compiled problem")
    elif t == OK.OBJECT_EXP:
        o = e.object()
        if not problem.has_object(o.name) or problem.object(o.name) != o:
            errs.append(f"{where}: object {o.name} not declared")
    elif t == OK.PARAM_EXP:
        p = e.parameter()
        if p.name not in params or params[p.name] != p:
            errs.append(f"{where}: parameter {p.name} does not belong to the enclosing action")
    elif t == OK.VARIABLE_EXP:
        if e.variable() not in bound:
            errs.append(f"{where}: variable {e.variable().name} is free")
    if t in (OK.EXISTS, OK.FORALL):
        bound = bound | set(e.variables())
        for v in e.variables():
            check_type(problem, v.type, errs, where)
    for a in e.args:
        walk_expr(problem, a, params, bound, errs, where)


def check_type(problem, t, errs, where):
    if t.is_user_type():
        if not problem.has_type(t.name) or problem.user_type(t.name) != t:
            errs.append(f"{where}: type {t.name} not declared")


def well_formed(problem):
    errs = []
    for cat, names in (
        ("action", [a.name for a in problem.actions]),
        ("fluent", [f.name for f in problem.fluents]),
        ("object", [o.name for o in problem.all_objects]),
        ("type", [t.name for t in problem.user_types]),
    ):
        if len(set(names)) != len(names):
            errs.append(f"duplicate {cat} names: {sorted(n for n in set(names) if names.count(n) > 1)}")
    for f in problem.fluents:
        check_type(problem, f.type, errs, f"fluent {f.name}")
        for p in f.signature:
            check_type(problem, p.type, errs, f"fluent {f.name}")
    for o in problem.all_objects:
        check_type(problem, o.type, errs, f"object {o.name}")
    for a in problem.actions:
        params = {p.name: p for p in a.parameters}
        for p in a.parameters:
            check_type(problem, p.type, errs, f"action {a.name}")
        w = f"action {a.name}"
        for c in a.preconditions:
            walk_expr(problem, c, params, frozenset(), errs, w)
        for e in a.effects:
            b = frozenset(e.forall)
            walk_expr(problem, e.fluent, params, b, errs, w)
            walk_expr(problem, e.value, params, b, errs, w)
            walk_expr(problem, e.condition, params, b, errs, w)
    for g in problem.goals:
        walk_expr(problem, g, {}, frozenset(), errs, "goal")
    for tc in problem.trajectory_constraints:
        walk_expr(problem, tc, {}, frozenset(), errs, "trajectory constraint")
    for fe, v in problem.explicit_initial_values.items():
        walk_expr(problem, fe, {}, frozenset(), errs, "initial value")
        walk_expr(problem, v, {}, frozenset(), errs, "initial value")
    for f, v in problem.fluents_defaults.items():
        if not problem.has_fluent(f.name):
            errs.append(f"default for undeclared fluent {f.name}")
    for m in problem.quality_metrics:
        if m.is_minimize_action_costs():
            for a in m.costs:
                if a not in problem.actions:
                    errs.append(f"metric cost for action {a.name} that is not in the problem")
    return errs


def collision_features(spec):
    names = [t[0] for t in spec["types"]] + [o[0] for o in spec["objects"]] + [f["name"] for f in spec["fluents"]] + [a["name"] for a in spec["actions"]]
    low = [n.lower() for n in names]
    feats = set()
    if len(set(low)) < len(low):
        feats.add("case-variants")
    for n in names:
        for m in names:
            if n != m and (m.startswith(n + "_") or m.startswith(n)):
                feats.add("prefix")
    joined = set()
    for n in names:
        for m in names:
            j = n + "_" + m
            if j in names or j in joined:
                feats.add("concat-collision")
            joined.add(j)
    return feats


def check(ctx, case):
    from unified_planning.exceptions import UPProblemDefinitionError
    from unified_planning.plans import ActionInstance, SequentialPlan

    c = Compiled(case)
    label = "+".join(case["compilers"])
    try:
        ok = c.compile()
    except Exception as e:
        stage = case["compilers"][len(c.results)]
        tag = ""
        msg = str(e)
        if stage == "trajectory" and type(e).__name__ == "UPProblemDefinitionError" and "PROBLEM NOT SOLVABLE" in msg:
            # documented rejection: a constraint is already violated in the initial state
            raise Abstain("documented-rejection")
        raise Violation(
            f"compile-exception:{stage}:{type(e).__name__}{tag}",
            f"{stage} (in {label}) raised {type(e).__name__}: {str(e)[:300]}",
            case,
        )
    if not ok:
        ctx.cls(f"unsupported:{c.unsupported[0]}")
        return
    orig_actions = set(c.problem.actions)
    for i, res in enumerate(c.results):
        stage = case["compilers"][i]
        p = res.problem
        if p is None:
            raise Violation(f"no-problem:{stage}", "CompilerResult.problem is None", case)
        errs = well_formed(p)
        if errs:
            raise Violation(f"ill-formed-result:{stage}", "; ".join(errs[:4]), case)
        try:
            p.kind
        except Exception as e:
            raise Violation(f"kind-exception:{stage}:{type(e).__name__}", repr(e), case)
        if res.plan_back_conversion is None:
            raise Violation(f"no-plan-back-conversion:{stage}", f"{stage}: CompilerResult.plan_back_conversion is None", case)
        env = p.environment
        try:
            res.plan_back_conversion(SequentialPlan([], env))
        except Exception as e:
            raise Violation(f"plan-back-conversion-exception:{stage}:{type(e).__name__}", f"empty plan: {e!r}", case)
        stage_orig = set(c.stage_inputs[i].actions)
        for a in p.actions:
            params = []
            feasible = True
            for prm in a.parameters:
                if prm.type.is_user_type():
                    objs = list(p.objects(prm.type))
                    if not objs:
                        feasible = False
                        break
                    params.append(objs[0])
                elif prm.type.is_bool_type():
                    params.append(True)
                else:
                    lo = prm.type.lower_bound
                    params.append(lo if lo is not None else 0)
            if not feasible:
                continue
            ai = ActionInstance(a, tuple(params))
            try:
                back = res.map_back_action_instance(ai)
                res.plan_back_conversion(SequentialPlan([ai], env))
            except Exception as e:
                raise Violation(f"map-back-exception:{stage}:{type(e).__name__}", f"{stage}: mapping back {ai} raised {e!r}", case)
            if back is not None:
                if back.action not in stage_orig:
                    raise Violation(f"map-back-foreign-action:{stage}", f"{ai} maps back to {back} whose action is not an action of the input problem", case)
                for prm, v in zip(back.action.parameters, back.actual_parameters):
                    if not prm.type.is_compatible(v.type):
                        raise Violation(f"map-back-ill-typed:{stage}", f"{ai} maps back to {back}", case)
    feats = collision_features(c.spec)
    fresh = {a.name for a in c.compiled.actions} - {a.name for a in c.problem.actions} or {f.name for f in c.compiled.fluents} - {f.name for f in c.problem.fluents}
    for f in feats:
        ctx.cls(f)
    ctx.cls(f"compiled:{label}")
    if feats or fresh:
        ctx.nontriv([label, spec_hash(c.spec)])


def spec_hash(spec):
    from harness.core import case_hash

    return case_hash(spec)


def shard(ctx):
    def oracle(case):
        check(ctx, case)

    ctx.run_hypothesis(comp.cases(name_pool=NAME_POOLS), oracle, ctx.scale(9600, 60000))


def replay(ctx, case):
    check(ctx, case)
