"""C07 — compilers preserve solvability and every original plan (completeness)."""

from __future__ import annotations

from harness import comp
from harness.comp import Compiled, describe
from harness.core import Abstain, Violation
from harness.explore import Explorer
from harness.refsim import const_value, freeze

PROPERTY = "C07"
TECHNIQUE = "property-based testing; exhaustive bounded plan enumeration of the ORIGINAL problem with the reference semantics and guided search for a counterpart in the compiled problem; complete reachability for the unsolvability clause"
RULE = (
    "Problems drawn inside each compiler's supported kind (10 compilers + 6 pipelines).  All valid plans of the original up to "
    "length 3 (reference simulator + PDDL3 trajectory semantics, node cap 1500) are enumerated; for each, a guided search "
    "follows the plan in the compiled problem trying every compiled ground action that maps back to the current step "
    "(auxiliary actions mapping back to nothing may close the plan) and must reach a compiled goal state; steps that are "
    "no-ops in the original may be skipped (counted as noop-dropped).  When the complete reachable space of the compiled "
    "problem (<= 400 states) contains no goal state, the original must have none either.  Non-trivial = original valid plan "
    "of length >= 1 on a problem the compiler rewrote; distinct by (problem, compiler, plan)."
)
SHARDS = {"quick": 16, "thorough": 16}
CASE_TIMEOUT_S = 12  # CPU seconds per case; DNF / powerset compilations that explode are inconclusive, not judged


def guided(c, comp_ex, plan_steps, orig_states, ctx):
    """True if the compiled problem has a valid plan mapping back to plan_steps."""
    cache = {}

    def back(inst):
        key = (inst[0].name, inst[1])
        if key not in cache:
            try:
                r = c.map_back_plan([inst])
            except Exception as e:
                raise Violation(f"map-back-exception:{'+'.join(c.case['compilers'])}:{type(e).__name__}", f"mapping back {inst[0].name}{list(map(str, inst[1]))} raised {e!r}", c.case)
            cache[key] = None if not r else (r[0][0].name, r[0][1])
        return cache[key]

    aux = [i for i in comp_ex.instances if back(i) is None]
    paths = [[comp_ex.ref.initial_state()]]
    noop_skipped = False
    for k, (a, args) in enumerate(plan_steps):
        target = (a.name, tuple(args))
        cands = [i for i in comp_ex.instances if back(i) == target]
        nxt = []
        seen = set()
        for states in paths:
            for ca, cargs in cands:
                s2, why = comp_ex.ref.try_apply(states[-1], ca, cargs)
                if s2 is None:
                    continue
                key = freeze(s2)
                if key in seen and not comp_ex.tcs:
                    continue
                seen.add(key)
                nxt.append(states + [s2])
        if orig_states[k] == orig_states[k + 1]:
            # a no-op step may have no compiled counterpart (effect-less variants are dropped)
            for states in paths:
                key = freeze(states[-1])
                if key not in seen:
                    nxt.append(states)
                    noop_skipped = True
        if not nxt:
            return False, f"no compiled action mapping back to step {k} {a.name}{list(map(str, args))} is applicable ({len(cands)} candidates)", noop_skipped
        paths = nxt[:60]
    # close with auxiliary actions (at most 2)
    frontier = paths
    for _ in range(3):
        for states in frontier:
            try:
                if comp_ex.goal_ok(states):
                    return True, "ok", noop_skipped
            except Abstain:
                continue
        nxt = []
        for states in frontier:
            for ca, cargs in aux:
                s2, why = comp_ex.ref.try_apply(states[-1], ca, cargs)
                if s2 is not None:
                    nxt.append(states + [s2])
        frontier = nxt[:60]
        if not frontier:
            break
    return False, "the compiled counterparts are applicable but no compiled goal state is reached", noop_skipped


def check(ctx, case, k=3, max_nodes=1500):
    c = Compiled(case)
    label = "+".join(case["compilers"])
    try:
        ok = c.compile()
    except Exception as e:
        ctx.cls(f"compile-raised:{label}:{type(e).__name__}")
        return
    if not ok:
        ctx.cls(f"unsupported:{label}")
        return
    orig = Explorer(c.problem)
    comp_ex = Explorer(c.compiled)
    try:
        plans, complete = orig.valid_plans(k, max_nodes=max_nodes, max_plans=25)
    except Abstain as ab:
        ctx.abstain(ab.reason)
        return
    rewrote = str(c.compiled) != str(c.problem)
    ctx.cls(f"compiled:{label}")
    for steps, states in plans:
        ctx.evaluations += 1
        try:
            found, why, noop = guided(c, comp_ex, steps, states, ctx)
        except Abstain as ab:
            ctx.abstain(ab.reason)
            continue
        if noop:
            ctx.cls("noop-dropped")
        if not found:
            # attribute to a stage for pipelines
            blamed = label
            if len(case["compilers"]) > 1:
                for i in range(len(c.results)):
                    sub = Compiled({"compilers": case["compilers"][: i + 1], "problem": case["problem"]})
                    try:
                        sub.compile()
                        f2, _, _ = guided(sub, Explorer(sub.compiled), steps, states, ctx)
                    except Exception:
                        break
                    if not f2:
                        blamed = case["compilers"][i]
                        break
            trig = ""
            if blamed == "disjunctive" and comp.disjunctive_incdec_trigger(case["problem"]):
                trig = ":split-conditional-increase"  # a root cause of its own (known finding)
            if blamed == "undefined_numeric" and _undefined_read_in_conditional_value(case["problem"]):
                trig = ":read-in-conditional-effect-value"  # known finding
            raise Violation(
                f"incomplete:{blamed}{trig}",
                f"original plan {describe(steps)} is valid but the compiled problem ({label}) has no counterpart: {why}",
                case,
                {"plan": describe(steps)},
            )
        if steps and rewrote:
            ctx.nontriv([label, spec_hash(c.spec), describe(steps)])
    # unsolvability clause
    if not comp_ex.tcs and not orig.tcs:
        try:
            cstates, ccomplete = comp_ex.reachable(400)
            if ccomplete and not any(_goal(comp_ex, s) for s in cstates.values()):
                ostates, ocomplete = orig.reachable(400)
                ctx.cls("compiled-unsolvable")
                if ocomplete:
                    for s in ostates.values():
                        if _goal(orig, s):
                            raise Violation(
                                f"solvability-lost:{label}",
                                f"the compiled problem ({label}) has no reachable goal state ({len(cstates)} states, complete) but the original has one",
                                case,
                            )
        except Abstain as ab:
            ctx.abstain(ab.reason)


def _goal(ex, s):
    try:
        return ex.ref.goal(s)
    except Abstain:
        return False


def _undefined_read_in_conditional_value(spec):
    """some conditional effect's VALUE reads a numeric fluent that has no default (may be undefined)"""
    undef = {f["name"] for f in spec["fluents"] if f["type"] != "bool" and f["type"][0] in ("int", "real") and f.get("default") is None}

    def reads(e):
        if isinstance(e, list) and e:
            if e[0] == "fl" and e[1] in undef:
                return True
            return any(reads(x) for x in e[1:])
        return False

    # (a conditional increase / decrease reads its own target: its value is f +- c)
    return any(
        e.get("cond") is not None and (reads(e["val"]) or (e["kind"] in ("inc", "dec") and reads(e["fl"])))
        for a in spec["actions"]
        for e in a.get("eff", [])
    )


def spec_hash(spec):
    from harness.core import case_hash

    return case_hash(spec)


def shard(ctx):
    def oracle(case):
        ctx.evaluations -= 1
        check(ctx, case, 3 if ctx.quick else 4, 1500 if ctx.quick else 5000)

    import os

    only = os.environ.get("VERIF_ONLY")  # experiments: restrict to some compilers
    strat = comp.cases(names=only.split(","), with_pipelines=False) if only else comp.cases()
    ctx.run_hypothesis(strat, oracle, ctx.scale(4000, 24000))


def replay(ctx, case):
    check(ctx, case, 4, 5000)
