"""C18 — PDDL write/read round trip preserves problem semantics and plans."""

from __future__ import annotations

from hypothesis import strategies as st

from harness import gen
from harness.bisim import bisimulate
from harness.core import Abstain, Violation
from harness.explore import Explorer
from harness.refsim import const_value
from harness.simcmp import normalize_spec, params_fnodes

PROPERTY = "C18"
TECHNIQUE = "property-based round trip (PDDLWriter -> both PDDL readers) judged by bisimulation under the writer's renaming with the reference semantics; plan text round trips"
RULE = (
    "Typed (flat / hierarchical) classical and numeric problems in the PDDL fragment: unbounded numeric fluents, no object "
    "fluents, fully defined initial state, quantified conditions, conditional and forall effects, increase / decrease / assign "
    "with nested non-commutative arithmetic, identifiers from an adversarial pool (upper case, keywords, leading digits, "
    "symbols).  The written domain + problem are read back with force_up_pddl_reader (must succeed) and "
    "force_ai_planning_reader (a rejection is counted; an accepted text is held to the same standard); original and re-read "
    "problem are bisimulated under get_pddl_name to depth 2 (quick) / 3: objects, initial state, applicability and "
    "successors of every ground action in every reachable state, goal verdicts.  Plans (valid and mutated) written by "
    "get_plan parse back to the same instances and have the same validity on the re-read problem; time-triggered plans over "
    "temporal problems (durative and instantaneous steps, dyadic start times and durations) written by get_plan parse back "
    "to the same timed instances.  Non-trivial = problem "
    "with a renamed item, a non-commutative numeric expression or a quantifier / conditional effect, and >= 2 reachable "
    "states; distinct by hash of the spec."
)
SHARDS = {"quick": 16, "thorough": 16}

NAMES = ["Loc", "loc", "LOC", "at", "and", "start", "end", "Move", "move", "1x", "x-y", "x.y", "x_y", "number", "object", "when", "a", "b", "c", "f", "g", "total-cost", "over", "A_b", "a_B"]
PROFILE = gen.Profile(
    ifuns=False, undefined=False, bounded=False, invariants=False, fluent_kinds=["bool", "bool", "int", "real"], nested_fluent_args=False,
    names={"*": NAMES}, max_objects=3, max_fluents=4, division=True, real_consts=True, decimal_only=True,
    param_name_pool=["x", "X", "y", "p0", "loc", "at"],
)


@st.composite
def cases(draw):
    g = gen.Gen(draw, PROFILE)
    p = g.problem()
    # Boolean effect values must be constants for PDDL
    for a in p["actions"]:
        for e in a["eff"]:
            f = next(f for f in p["fluents"] if f["name"] == e["fl"][1])
            if f["type"] == "bool" and e["val"][0] != "b":
                e["val"] = ["b", g.b(0.5)]
    # closed world: Boolean fluents default to false, numeric fluents are defined
    for f in p["fluents"]:
        if f["type"] == "bool":
            f["default"] = ["b", False]
    return {"problem": p, "mut": g.i(0, 1000)}


def has_feature(spec, ops):
    def walk(e):
        if isinstance(e, list) and e:
            return (isinstance(e[0], str) and e[0] in ops) or any(walk(x) for x in e[1:])
        return False

    return any(walk(x) for a in spec["actions"] for x in a["pre"] + [e["val"] for e in a["eff"]] + [e["cond"] for e in a["eff"] if e["cond"]]) or any(walk(g) for g in spec["goals"])


def check(ctx, case):
    from unified_planning.environment import Environment
    from unified_planning.exceptions import UPProblemDefinitionError, UPTypeError, UPUnreachableCodeError
    from unified_planning.io import PDDLReader, PDDLWriter
    from unified_planning.plans import ActionInstance, SequentialPlan

    spec, b, ref = normalize_spec(case["problem"])
    problem, em = b.problem, b.em
    w = PDDLWriter(problem)
    try:
        dom, prb = w.get_domain(), w.get_problem()
    except (UPProblemDefinitionError, UPTypeError) as e:
        raise Abstain("writer-rejected:" + type(e).__name__)
    except UPUnreachableCodeError as e:
        if "false in PDDL" in str(e):
            # a condition that simplifies to the constant false has no PDDL counterpart: outside the fragment
            raise Abstain("constant-false-condition")
        raise Violation("writer-exception:UPUnreachableCodeError", f"{e!r}", case)
    except Exception as e:
        raise Violation(f"writer-exception:{type(e).__name__}", f"{e!r}", case)
    renamed = False
    for reader_name, kw in (("up", {"force_up_pddl_reader": True}), ("ai", {"force_ai_planning_reader": True})):
        env2 = Environment()
        try:
            q = PDDLReader(environment=env2, **kw).parse_problem_string(dom, prb)
        except Exception as e:
            if reader_name == "ai":
                ctx.abstain("reader-rejected:ai")
                continue
            if type(e).__name__ == "UPConflictingEffectsException" and any(
                ef.is_conditional() and ef.condition.simplify().is_true() for a in problem.actions for ef in a.effects
            ):
                # a conditional effect with a tautological condition is written unconditionally and then
                # conflicts statically with another effect: such actions are outside the expressible fragment
                raise Abstain("tautological-effect-condition")
            raise Violation(f"up-reader-exception:{type(e).__name__}", f"the UP reader rejects the written PDDL: {str(e)[:300]}\n{dom}\n{prb}", case)
        fmap, omap, amap = {}, {}, {}
        try:
            for f in problem.fluents:
                fmap[f.name] = w.get_pddl_name(f)
            for o in problem.all_objects:
                omap[o.name] = w.get_pddl_name(o)
            for a in problem.actions:
                amap[a.name] = w.get_pddl_name(a)
        except Exception as e:
            raise Abstain("item-not-written")
        renamed = renamed or any(k != v for m in (fmap, omap, amap) for k, v in m.items())
        missing = [v for v in fmap.values() if not q.has_fluent(v)] + [v for v in omap.values() if not q.has_object(v)] + [v for v in amap.values() if not q.has_action(v)]
        if missing:
            raise Violation(f"{reader_name}:renamed-item-missing", f"names {missing} chosen by the writer are not in the re-read problem", case)
        try:
            pairs, nstates = bisimulate(ctx, problem, q, fmap, omap, amap, case.get("depth", 2), case, sig_prefix=f"{reader_name}:", ignore_extra_fluents=("total-cost",))
        except Violation as v:
            if reader_name == "ai" and v.sig in ("ai:successor-differs", "ai:applicability-differs", "ai:goal-verdict-differs"):
                # same two root causes as the C21 findings: the third-party `pddl` parser drops repeated operands of
                # + - * / and repeated equal increase / decrease effects; attributed only when the trigger shape is there
                from checks.c21 import arith_dedup_trigger, duplicate_incdec_trigger

                if arith_dedup_trigger(case["problem"]):
                    raise Violation("ai:semantics-differ:pddl-lib-arithmetic-operand-dedup", v.message, v.case, v.extra)
                if duplicate_incdec_trigger(case["problem"]):
                    raise Violation("ai:semantics-differ:pddl-lib-duplicate-effect-dedup", v.message, v.case, v.extra)
            raise
        ctx.cls(f"bisimulated:{reader_name}")
        # plans
        if reader_name == "up":
            ex = Explorer(problem)
            plans, _ = ex.valid_plans(3, max_nodes=400, max_plans=4)
            cand = [s for s, _ in plans if s]
            if ex.instances:
                m = case["mut"]
                cand.append([ex.instances[m % len(ex.instances)], ex.instances[(m // 7) % len(ex.instances)]])
            for steps in cand[:4]:
                desc = [[a.name, list(map(str, args))] for a, args in steps]
                sp = SequentialPlan([ActionInstance(a, params_fnodes(problem, em, a, args)) for a, args in steps], b.env)
                try:
                    text = w.get_plan(sp)
                    back = PDDLReader(environment=b.env).parse_plan_string(problem, text, w.get_item_named)
                except Exception as e:
                    raise Violation(f"plan-round-trip-exception:{type(e).__name__}", f"{e!r} on plan {desc}", case)
                got = [[ai.action.name, [str(const_value(p)) for p in ai.actual_parameters]] for ai in back.actions]
                if got != desc:
                    raise Violation("plan-round-trip-differs", f"plan {desc} written and parsed back gives {got}", case)
                try:
                    back2 = PDDLReader(environment=env2).parse_plan_string(q, text)
                except Exception as e:
                    raise Violation(f"plan-parse-on-reread-exception:{type(e).__name__}", f"{e!r}", case)
                steps2 = [(ai.action, tuple(const_value(p) for p in ai.actual_parameters)) for ai in back2.actions]
                try:
                    v1, _ = ex.is_valid(steps)
                    v2, _ = Explorer(q).is_valid(steps2)
                except Abstain as ab:
                    ctx.abstain(ab.reason)
                    continue
                if v1 != v2:
                    raise Violation("plan-validity-differs", f"plan {desc} is {'valid' if v1 else 'invalid'} on the original but {'valid' if v2 else 'invalid'} on the re-read problem", case)
            if nstates >= 2 and (renamed or has_feature(spec, ("-", "/", "exists", "forall")) or any(e["cond"] for a in spec["actions"] for e in a["eff"])):
                ctx.nontriv(spec)


TPROFILE = gen.Profile(
    ifuns=False, bounded=False, invariants=False, undefined=False, max_fluents=3, max_objects=3, max_arity=1, quantifiers=False,
    nested_fluent_args=False, forall_effects=False, division=False, temporal_delays=False, timed_items=False,
    names={"*": NAMES}, fluent_kinds=["bool", "bool", "int"],
)


@st.composite
def tt_cases(draw):
    g = gen.TGen(draw, TPROFILE)
    p = g.temporal_problem()
    if not any("dur" not in a for a in p["actions"]):
        p["actions"].append(g.gen_action(9))  # always an instantaneous action next to the durative ones
    # dyadic times: written as decimals and read back exactly
    t = st.sampled_from([0, 1, "1/2", "3/2", 2, "1/4", 5, "13/4"])
    d = st.sampled_from([1, 2, "1/2", "3/2", 5, "1/4"])
    steps = draw(st.lists(st.tuples(st.integers(0, 20), st.integers(0, 50), t, d), min_size=1, max_size=5))
    return {"tproblem": p, "ttplan": [list(x) for x in steps]}


def check_tt_plan(ctx, case):
    """time-triggered plan text round trip: get_plan -> parse_plan_string gives back the same timed instances"""
    from fractions import Fraction

    from harness.build import build, frac
    from unified_planning.io import PDDLReader, PDDLWriter
    from unified_planning.model import DurativeAction
    from unified_planning.plans import ActionInstance, TimeTriggeredPlan

    b = build(case["tproblem"])
    problem, em = b.problem, b.em
    acts = list(problem.actions)
    tas = []
    for ai_, k, start, dur in case["ttplan"]:
        a = acts[ai_ % len(acts)]
        args = []
        for q in a.parameters:
            if not q.type.is_user_type():
                args = None
                break
            objs = list(problem.objects(q.type))
            if not objs:
                args = None
                break
            args.append(em.ObjectExp(objs[k % len(objs)]))
            k //= len(objs)
        if args is None:
            continue
        tas.append((frac(start), ActionInstance(a, tuple(args)), frac(dur) if isinstance(a, DurativeAction) else None))
    if not tas:
        raise Abstain("no-groundable-step")
    plan = TimeTriggeredPlan(tas, b.env)
    w = PDDLWriter(problem)
    try:
        w.get_domain()
        w.get_problem()
    except Exception:
        ctx.cls("tt:domain-not-writable")  # the problem text is not the subject here; names are assigned lazily anyway
    try:
        text = w.get_plan(plan)
        back = PDDLReader(environment=b.env).parse_plan_string(problem, text, w.get_item_named)
    except Exception as e:
        raise Violation(f"tt-plan-round-trip-exception:{type(e).__name__}", f"{e!r} on plan {plan}", case)
    want = sorted((str(s), ai.action.name, tuple(str(x) for x in ai.actual_parameters), None if d is None else str(d)) for s, ai, d in plan.timed_actions)
    got = sorted((str(Fraction(s)), ai.action.name, tuple(str(x) for x in ai.actual_parameters), None if d is None else str(Fraction(d))) for s, ai, d in getattr(back, "timed_actions", []))
    if want != got:
        raise Violation("tt-plan-round-trip-differs", f"time-triggered plan {want} written as\n{text}and parsed back gives {got}", case)
    kinds = [d is None for _, _, d in plan.timed_actions]
    ctx.cls("tt:plan")
    if len(tas) >= 2 and any(kinds) and not all(kinds):
        ctx.cls("tt:mixed-durative-instantaneous")
        ctx.nontriv(["tt", case["tproblem"], case["ttplan"]])


def shard(ctx):
    ctx.shrink_budget = 40  # each call parses the PDDL text twice (~0.2 s)

    def oracle(case):
        ctx.evaluations -= 1
        case = dict(case, depth=2 if ctx.quick else 3)
        check(ctx, case)

    ctx.run_hypothesis(cases(), oracle, ctx.scale(480, 8000))
    ctx.shrink_budget = 300
    ctx.run_hypothesis(tt_cases(), lambda case: check_tt_plan(ctx, case), ctx.scale(1600, 20000), salt=1)


def replay(ctx, case):
    if "tproblem" in case:
        return check_tt_plan(ctx, case)
    check(ctx, case)
