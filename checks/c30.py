"""C30 — KS0 conformant-to-classical compilation is sound and complete."""

from __future__ import annotations

from itertools import product

from hypothesis import strategies as st

from harness import gen
from harness.build import build
from harness.core import Abstain, Violation, case_hash
from harness.refsim import RefSim, const_value, freeze

PROPERTY = "C30"
TECHNIQUE = "property-based testing: exhaustive belief-space search of the original conformant problem (reference semantics) against exhaustive bounded plan enumeration / complete search of the compiled classical problem"
RULE = (
    "Small Boolean problems (<= 3 fluents with 0-1 parameters over 2 objects, <= 3 actions; conditional and forall effects, "
    "negative / disjunctive / quantified conditions, at most one effect per fluent per action) with a generated non-empty "
    "collection of 1-4 possible initial states (duplicates included), given explicitly as UPStates or, in a second mode, as a "
    "ContingentProblem whose oneof / or / unknown constraints the harness enumerates itself.  In 60 % of the cases with "
    "disagreeing states half of the effects are conditioned on a literal over a ground fluent the states disagree on, and 30 % "
    "carry a 'lost and regained by cases' shape (a literal known initially, switched off and on again under such conditions, and "
    "required by the goal).  Reference = breadth-first search "
    "over beliefs (sets of states): an action is applicable iff applicable in every state, goals hold iff they hold in every "
    "state.  Soundness: every valid plan of the compiled problem up to length 4 (reference simulator, node cap) maps through "
    "plan_back_conversion to a plan the belief semantics executes from ALL possible initial states reaching the goals in each.  "
    "Completeness: if belief search finds a conformant plan, complete search of the compiled problem must find a plan (a capped "
    "search is inconclusive); if the compiled problem is solvable the mapped-back plan is conformant (soundness again).  "
    "Non-trivial = instance with >= 2 distinct possible initial states that differ on a fluent some condition reads, and either a "
    "conformant plan of length >= 1 or a proof that none exists; distinct by canonical case."
)
SHARDS = {"quick": 8, "thorough": 16}
CASE_TIMEOUT_S = 60

PROF = gen.Profile(
    ifuns=False, undefined=False, invariants=False, traj=False, bounded=False, fluent_kinds=["bool"], max_arity=1, max_fluents=3, max_objects=2, max_types=1,
    nested_fluent_args=False, max_actions=3, max_params=1, max_pre=2, max_eff=3, max_goals=2, equality=False, numeric_cmp=False, arith=False, incdec=False,
    fluent_values=False, effect_same_fluent_bias=False, max_depth=2,
)


@st.composite
def cases(draw):
    g = gen.Gen(draw, PROF)
    p = g.problem()
    for f in p["fluents"]:
        f["default"] = ["b", False]
    for a in p["actions"]:
        seen, effs = set(), []
        for e in a["eff"]:
            if e["fl"][1] in seen:
                continue  # at most one effect per fluent per action (the property's input domain)
            seen.add(e["fl"][1])
            effs.append(e)
        a["eff"] = effs
    if not p["goals"]:
        p["goals"] = [g.bool_expr({"params": [], "vars": []}, 1)]
    nstates = g.pick([1, 2, 2, 2, 3, 3, 4])
    states = [[g.b() for _ in range(8)] for _ in range(nstates)]
    if nstates >= 2 and g.b(0.25):
        states.append(list(states[0]))  # a duplicate
    keys = ground(p)
    hidden = [k for i, k in enumerate(keys) if len({bool(b[i % len(b)]) for b in states}) > 1]
    if hidden and g.b(0.6):
        # effects conditioned on what is NOT known: literals over ground fluents on which the possible initial
        # states disagree, so that knowledge is lost and has to be re-established by cases
        for a in p["actions"]:
            for e in a["eff"]:
                if g.b(0.5):
                    k = g.pick(hidden)
                    atom = ["fl", k[0]] + [["obj", o] for o in k[1]]
                    e["cond"] = ["not", atom] if g.b(0.5) else atom
        if g.b(0.5):
            # goals over what the actions write (conjunction of literals: no disjunction involved)
            written = []
            for a in p["actions"]:
                for e in a["eff"]:
                    fl = e["fl"]
                    if all(x[0] == "obj" for x in fl[2:]) and fl not in written:
                        written.append(fl)
            if written:
                p["goals"] = [w if g.b(0.7) else ["not", w] for w in written[: g.i(1, 3)]]
    if hidden and len(keys) >= 2 and len(keys) <= 8 and g.b(0.3):
        # "lost and regained by cases": a literal L known initially, switched off under a condition on which the
        # possible states disagree and switched on again under such a condition, and needed at the end -- K L is
        # then only re-derivable by merging over the states (the K_S0 translation's merge actions)
        atom = lambda k: ["fl", k[0]] + [["obj", o] for o in k[1]]
        u = g.pick(hidden)
        others = [k for k in keys if k != u]
        L = g.pick(others)
        val0 = g.b(0.7)
        for b_ in states:
            b_[keys.index(L)] = val0
        lit = lambda k, pos: atom(k) if pos else ["not", atom(k)]
        acts = p["actions"]
        while len(acts) < 2:
            acts.append({"name": f"extra{len(acts)}", "params": [], "pre": [], "eff": []})
        lose, regain = (acts[0], acts[1]) if g.b(0.7) else (acts[1], acts[0])
        cu = g.b()
        lose["eff"] = [e for e in lose["eff"] if e["fl"][1] != L[0]] + [{"kind": "assign", "fl": atom(L), "val": ["b", not val0], "cond": lit(u, cu), "forall": []}]
        regain["eff"] = [e for e in regain["eff"] if e["fl"][1] != L[0]] + [{"kind": "assign", "fl": atom(L), "val": ["b", val0], "cond": lit(u, cu if g.b(0.7) else not cu), "forall": []}]
        goals = [lit(L, val0)]
        rest = [k for k in others if k != L and k[0] != L[0] and k[0] != u[0]]
        if rest:
            G = g.pick(rest)
            gv = not bool(states[0][keys.index(G)])
            lose["eff"] = [e for e in lose["eff"] if e["fl"][1] != G[0]] + [{"kind": "assign", "fl": atom(G), "val": ["b", gv], "cond": None, "forall": []}]
            goals.append(lit(G, gv))
        p["goals"] = goals
    mode = g.pick(["states", "states", "contingent"])
    return {"problem": p, "states": states, "mode": mode}


def ground(spec):
    out = []
    objs = [o for o, _ in spec["objects"]]
    for f in spec["fluents"]:
        for combo in product(objs, repeat=len(f["params"])):
            out.append((f["name"], tuple(combo)))
    return out


def has_disjunction(spec):
    """a disjunctive condition somewhere (or / implies / iff / exists, or a negated conjunction / forall)"""

    def walk(e, neg=False):
        if not isinstance(e, list) or not e:
            return False
        op = e[0]
        if op in ("implies", "iff"):
            return True
        if op == "not":
            return walk(e[1], not neg)
        if op in ("or", "exists"):
            return (not neg) or any(walk(x, neg) for x in e[1:] if isinstance(x, list))
        if op in ("and", "forall"):
            return neg or any(walk(x, neg) for x in e[1:] if isinstance(x, list))
        return False

    conds = list(spec["goals"])
    for a in spec["actions"]:
        conds += a["pre"] + [e["cond"] for e in a["eff"] if e.get("cond")]
    return any(walk(c) for c in conds)


def belief_search(ref, states, max_beliefs=4000):
    """shortest conformant plan (list of (action, args)) or None; third value False when capped"""
    problem = ref.problem
    instances = [(a, args) for a in problem.actions for args in ref.instances(a)]
    b0 = frozenset(freeze(s) for s in states)
    state_of = {freeze(s): s for s in states}

    def goal(b):
        return all(ref.goal(state_of[k]) for k in b)

    if goal(b0):
        return [], True
    seen = {b0}
    frontier = [(b0, [])]
    while frontier:
        nxt = []
        for b, path in frontier:
            for a, args in instances:
                succ = []
                ok = True
                for k in b:
                    s2, _ = ref.try_apply(state_of[k], a, args)
                    if s2 is None:
                        ok = False
                        break
                    succ.append(s2)
                if not ok:
                    continue
                for s2 in succ:
                    state_of.setdefault(freeze(s2), s2)
                b2 = frozenset(freeze(s2) for s2 in succ)
                if b2 in seen:
                    continue
                seen.add(b2)
                p2 = path + [(a, args)]
                if goal(b2):
                    return p2, True
                if len(seen) > max_beliefs:
                    return None, False
                nxt.append((b2, p2))
        frontier = nxt
    return None, True


def conformant(ref, states, steps):
    """does the plan execute from every state and reach the goals in each?"""
    for s in states:
        cur = s
        for a, args in steps:
            cur, why = ref.try_apply(cur, a, args)
            if cur is None:
                return False, f"inapplicable ({why}) from initial state {fmt(s)}"
        if not ref.goal(cur):
            return False, f"goals not reached from initial state {fmt(s)}"
    return True, ""


def fmt(s):
    return "{" + ",".join(f"{k[0]}{list(k[1]) if k[1] else ''}" for k, v in sorted(s.items()) if v is True) + "}"


def check(ctx, case):
    from unified_planning.engines import CompilationKind
    from unified_planning.engines.compilers.ks0_compiler import Ks0Compiler
    from unified_planning.exceptions import UPUsageError
    from unified_planning.model import UPState
    from unified_planning.plans import ActionInstance, SequentialPlan

    from harness import refbfs
    from harness.explore import Explorer
    from harness.simcmp import params_fnodes

    spec = case["problem"]
    keys = ground(spec)
    assigns = []
    for bits in case["states"]:
        assigns.append({k: bool(bits[i % len(bits)]) for i, k in enumerate(keys)})
    distinct = {tuple(sorted(a.items())) for a in assigns}
    if case["mode"] == "contingent":
        from unified_planning.model.contingent import ContingentProblem

        # the same uncertainty expressed with initial constraints: fluents on which the states agree get explicit
        # values, the others are 'unknown'; the possible states are then ALL assignments of the hidden fluents,
        # which the harness enumerates itself
        b = build(dict(spec, init=[]), problem_cls=ContingentProblem)
        problem = b.problem
        hidden = [k for k in keys if len({a[k] for a in assigns}) > 1][:3]
        for k in keys:
            fe = b.expr(["fl", k[0]] + [["obj", o] for o in k[1]])
            if k in hidden:
                problem.add_unknown_initial_constraint(fe)
            else:
                problem.set_initial_value(fe, assigns[0][k])
        assigns = []
        for bits in product([False, True], repeat=len(hidden)):
            a0 = {k: bool(case["states"][0][i % len(case["states"][0])]) for i, k in enumerate(keys)}
            a0.update(dict(zip(hidden, bits)))
            assigns.append(a0)
        distinct = {tuple(sorted(a.items())) for a in assigns}
        compiler = Ks0Compiler()
    else:
        b = build(spec)
        problem = b.problem
        ups = [UPState({b.expr(["fl", k[0]] + [["obj", o] for o in k[1]]): b.em.Bool(v) for k, v in a.items()}, problem) for a in assigns]
        compiler = Ks0Compiler(ups)
    if not Ks0Compiler.supports(problem.kind):
        ctx.cls("unsupported")
        raise Abstain("unsupported-kind")
    ref = RefSim(problem, check_bounds=False, check_invariants=False)
    states = [{k: v for k, v in a.items()} for a in assigns]
    try:
        res = compiler.compile(problem, CompilationKind.CONFORMANT_TO_CLASSICAL)
    except UPUsageError as e:
        ctx.cls("documented-rejection")
        raise Abstain("documented-rejection")
    except Exception as e:
        import traceback

        tb = traceback.extract_tb(e.__traceback__)
        where = next((f"{f.filename.split('/')[-1]}:{f.name}" for f in reversed(tb) if "unified_planning" in f.filename), "?")
        raise Violation(f"compile-exception:{type(e).__name__}:{where}", f"Ks0Compiler.compile raised {type(e).__name__}: {str(e)[:300]}", case)
    comp = res.problem
    # ---- reference answer
    plan0, complete0 = belief_search(ref, states)
    # ---- soundness: all compiled plans up to a bound
    ex = Explorer(comp)
    try:
        plans, _ = ex.valid_plans(4, max_nodes=2500, max_plans=40)
    except Abstain as ab:
        ctx.abstain(ab.reason)
        return
    cem = comp.environment.expression_manager
    checked = 0
    for steps, _states in plans:
        sp = SequentialPlan([ActionInstance(a, params_fnodes(comp, cem, a, args)) for a, args in steps], comp.environment)
        try:
            back = res.plan_back_conversion(sp)
        except Exception as e:
            raise Violation(f"plan-back-exception:{type(e).__name__}", f"plan_back_conversion raised {e!r} on {[a.name for a, _ in steps]}", case)
        bsteps = [(problem.action(ai.action.name), tuple(const_value(x) for x in ai.actual_parameters)) for ai in back.actions]
        ok, why = conformant(ref, states, bsteps)
        ctx.evaluations += 1
        checked += 1
        if not ok:
            raise Violation(
                "unsound:compiled-plan-not-conformant",
                f"compiled plan {[a.name for a, _ in steps]} is valid for the compiled problem but maps back to {[[a.name, list(map(str, args))] for a, args in bsteps]}, which is not conformant: {why}",
                case,
            )
    # ---- completeness
    solved = any(True for _ in plans)
    if plan0 is not None and not plans:
        r = refbfs.RefBFSPlanner()._solve(comp)
        if r.plan is None:
            if r.status.name == "UNSOLVABLE_PROVEN":
                # disjunctive conditions have a root cause of their own (known finding): separate signature
                raise Violation(
                    "incomplete:conformant-plan-exists" + (":disjunctive-condition" if has_disjunction(spec) else ""),
                    f"the conformant plan {[[a.name, list(map(str, args))] for a, args in plan0]} exists but the compiled problem is unsolvable",
                    case,
                )
            ctx.abstain("compiled-search-capped")
            return
        bsteps = [(problem.action(ai.action.name), tuple(const_value(x) for x in ai.actual_parameters)) for ai in res.plan_back_conversion(r.plan).actions]
        ok, why = conformant(ref, states, bsteps)
        if not ok:
            raise Violation("unsound:compiled-plan-not-conformant", f"the compiled problem's plan maps back to a non-conformant plan: {why}", case)
    if plan0 is None and complete0 and plans:
        pass  # a compiled plan exists although no conformant plan does: already reported by the soundness part
    ctx.cls(f"mode:{case['mode']}")
    ctx.cls(f"states:{len(distinct)}")
    ctx.cls("conformant-plan:" + ("none" if plan0 is None else ("empty" if not plan0 else "yes")))
    if len(distinct) >= 2 and ((plan0 is not None and len(plan0) >= 1) or (plan0 is None and complete0)):
        ctx.nontriv(case_hash(case), {"states": len(distinct), "plan": None if plan0 is None else [[a.name, list(map(str, args))] for a, args in plan0]})


def shard(ctx):
    def oracle(case):
        ctx.evaluations -= 1
        check(ctx, case)

    ctx.run_hypothesis(cases(), oracle, ctx.scale(5000, 40000))


def replay(ctx, case):
    check(ctx, case)
