"""C06 — plans of compiled problems map back to valid plans (compiler soundness)."""

from __future__ import annotations

from harness import comp
from harness.comp import Compiled, describe
from harness.core import Abstain, HarnessError, Violation
from harness.explore import Explorer

PROPERTY = "C06"
TECHNIQUE = "property-based testing; exhaustive bounded plan enumeration of the compiled problem with the reference semantics, map-back, and reference validation (incl. PDDL3 trajectory semantics) on the original"
RULE = (
    "For each of the 10 problem-transforming compilers and 6 pipelines a problem is drawn from a profile inside the compiler's "
    "supported kind (asserted with supports(); unsupported draws are counted, not judged); ALL valid plans of the compiled "
    "problem up to length 3 (+1 when the compilation adds an auxiliary action) are enumerated with the reference simulator "
    "(node cap 1500), mapped back through map_back_action_instance and validated on the original with the reference "
    "simulator and PDDL3 trajectory semantics.  Non-trivial = compiled valid plan of length >= 1 on a problem the compiler "
    "actually rewrote (compiled problem differs from the original); distinct by (problem, compiler, compiled plan)."
)
SHARDS = {"quick": 16, "thorough": 16}
CASE_TIMEOUT_S = 12  # CPU seconds per case; DNF / powerset compilations that explode are inconclusive, not judged


def check(ctx, case, k=3, max_nodes=1500):
    c = Compiled(case)
    label = "+".join(case["compilers"])
    try:
        ok = c.compile()
    except Exception as e:
        # crashes are C08's subject; here they only stop the case
        ctx.cls(f"compile-raised:{label}:{type(e).__name__}")
        return
    if not ok:
        ctx.cls(f"unsupported:{label}")
        return
    orig = Explorer(c.problem)
    comp_ex = Explorer(c.compiled)
    extra = 1 if any(n in ("trajectory", "state_invariants") for n in case["compilers"]) else 0
    try:
        plans, complete = comp_ex.valid_plans(k + extra, max_nodes=max_nodes)
    except Abstain as ab:
        ctx.abstain(ab.reason)
        return
    rewrote = str(c.compiled) != str(c.problem)
    ctx.cls(f"compiled:{label}")
    for steps, states in plans:
        ctx.evaluations += 1
        try:
            back = c.map_back_plan(steps)
        except Exception as e:
            raise Violation(f"map-back-exception:{label}:{type(e).__name__}", f"mapping back {describe(steps)} raised {e!r}", case, {"compiled_plan": describe(steps)})
        try:
            valid, why = orig.is_valid(back)
        except Abstain as ab:
            ctx.abstain(ab.reason)
            continue
        if not valid:
            blamed, flags = label, orig.last_flags
            if len(case["compilers"]) > 1:
                # attribute the failure to the first stage (from the last) whose map-back breaks validity
                cur = steps
                for i in range(len(c.results) - 1, -1, -1):
                    prob_out = c.results[i].problem
                    nxt = []
                    for st_ in cur:
                        ai = c.results[i].map_back_action_instance(c.to_instance(prob_out, st_))
                        if ai is not None:
                            from harness.refsim import const_value

                            nxt.append((ai.action, tuple(const_value(p) for p in ai.actual_parameters)))
                    ex_i = Explorer(c.stage_inputs[i])
                    try:
                        ok_i, _ = ex_i.is_valid(nxt)
                    except Abstain:
                        break
                    if not ok_i:
                        blamed, flags = case["compilers"][i], ex_i.last_flags
                        break
                    cur = nxt
            trig = sorted(flags & {"add_after_delete", "conflict", "accumulate"})
            if blamed == "disjunctive" and comp.disjunctive_incdec_trigger(case["problem"]):
                trig.append("split-conditional-increase")
            if blamed == "trajectory" and _nonconst_bool_value(case["problem"]):
                trig.append("nonconst-bool-value")
            raise Violation(
                f"unsound:{blamed}" + ("".join(":" + t for t in trig)),
                f"compiled plan {describe(steps)} is valid for the compiled problem but maps back to {describe(back)} which is not valid for the original: {why}",
                case,
                {"compiled_plan": describe(steps), "mapped_back": describe(back)},
            )
        if steps and rewrote:
            ctx.nontriv([label, spec_hash(c.spec), describe(steps)])
    ctx.cls(f"plans:{label}", len(plans))


def _nonconst_bool_value(spec):
    btypes = {f["name"] for f in spec["fluents"] if f["type"] == "bool"}
    return any(e["fl"][1] in btypes and e["val"][0] != "b" for a in spec["actions"] for e in a["eff"])


def spec_hash(spec):
    from harness.core import case_hash

    return case_hash(spec)


def shard(ctx):
    def oracle(case):
        ctx.evaluations -= 1
        check(ctx, case, 3 if ctx.quick else 4, 1500 if ctx.quick else 6000)

    import os

    only = os.environ.get("VERIF_ONLY")  # experiments: restrict to some compilers
    strat = comp.cases(names=only.split(","), with_pipelines=False) if only else comp.cases()
    ctx.run_hypothesis(strat, oracle, ctx.scale(8000, 40000))


def replay(ctx, case):
    check(ctx, case, 4, 6000)
