"""C32 — factory engine selection honours every requested requirement."""

from __future__ import annotations

from hypothesis import strategies as st

from harness.core import Abstain, Violation, case_hash

PROPERTY = "C32"
TECHNIQUE = "property-based testing of Factory selection against a brute-force re-evaluation of every registered engine's own static predicates (supports / satisfies / ensures / supports_plan / supports_compilation / resulting_problem_kind)"
RULE = (
    "A fresh Environment().factory per case with the built-in registry plus 11 harness stub engines (planners, anytime "
    "planners, validators, compilers, repairers, portfolio selector) whose static predicates answer from generated tables "
    "(each a small perturbation of one generated universe kind; stub compilers remove / add 0-3 features), "
    "and a generated custom preference list (or the default one).  Requests: OneshotPlanner / AnytimePlanner / PlanValidator / "
    "Compiler / Compiler pipeline (1-3 compilation kinds) / PlanRepairer / PortfolioSelector through the public methods, and "
    "SEQUENTIAL_SIMULATOR / REPLANNER / ACTION_SELECTOR through Factory._get_engine_class (they need a live problem to be "
    "instantiated), each with a kind drawn as a subset of some registered engine's supported features plus 0-2 extra "
    "features (from the universe or from all features) and an optional requirement; half of the pipeline requests are chain-shaped (stub compiler A serves the first compilation "
    "kind on a kind it supports and partly removes, stubs B and C both serve the second).  Oracle: a returned engine is of the requested mode, supports the kind and the "
    "requirement (pipelines: stage i supports the kind produced by stages < i and its compilation kind); when no engine of "
    "the preference list qualifies the call raises UPNoSuitableEngineAvailableException, and it does not raise it when the "
    "preference-ordered choice exists.  Non-trivial = request for which some engine of the preference list has the "
    "requested mode but fails the kind or the requirement; distinct by case."
)
SHARDS = {"quick": 8, "thorough": 16}

MODES = [
    "oneshot_planner",
    "anytime_planner",
    "plan_validator",
    "compiler",
    "pipeline",
    "plan_repairer",
    "portfolio_selector",
    "sequential_simulator",
    "replanner",
    "action_selector",
]
OPT = ["SATISFICING", "SOLVED_OPTIMALLY"]
ANY = ["INCREASING_QUALITY", "OPTIMAL_PLANS"]
_ALL = None


def all_features():
    global _ALL
    if _ALL is None:
        from checks import c33

        c33.ALL = c33.all_features()
        _ALL = sorted(c33.valid(3))
    return _ALL


def plan_kinds():
    from unified_planning.plans import PlanKind

    return [p.name for p in PlanKind]


def comp_kinds():
    from unified_planning.engines import CompilationKind

    return [c.name for c in CompilationKind]


def strategy():
    feats = all_features()
    pks = plan_kinds()
    cks = comp_kinds()
    from harness.stub_engines import STUBS

    # stub tables are perturbations of one generated "universe" kind so that stubs mostly agree (selection
    # then hinges on the few features / requirements in which they differ, and pipelines can chain)
    table = st.fixed_dictionaries(
        {
            "drop": st.lists(st.integers(0, 63), max_size=3),
            "plus": st.lists(st.sampled_from(feats), max_size=2, unique=True),
            "opt": st.lists(st.sampled_from(OPT), unique=True),
            "any": st.lists(st.sampled_from(ANY), unique=True),
            "plans": st.lists(st.sampled_from(pks), max_size=3, unique=True),
            "ckinds": st.lists(st.integers(0, 3), max_size=3, unique=True),
            "removes": st.lists(st.integers(0, 63), max_size=3),
            "adds": st.lists(st.integers(0, 63), max_size=2),
        }
    )
    return st.fixed_dictionaries(
        {
            "ckpool": st.lists(st.sampled_from(cks), min_size=1, max_size=4, unique=True),
            "universe": st.lists(st.sampled_from(feats), min_size=3, max_size=30, unique=True),
            "stubs": st.fixed_dictionaries({n: table for n in sorted(STUBS)}),
            "pref": st.one_of(st.none(), st.lists(st.integers(0, 63), min_size=1, max_size=24)),
            "mode": st.sampled_from(MODES + ["pipeline", "pipeline"]),
            "kind": st.fixed_dictionaries(
                {
                    "base": st.integers(0, 63),
                    "keep": st.lists(st.booleans(), min_size=1, max_size=12),
                    "extra": st.lists(st.tuples(st.integers(0, 200), st.booleans()), max_size=2),
                    # declared version of the requested kind: older / undeclared versions imply features through
                    # the documented upgrade rules, which selection has to honour
                    "version": st.sampled_from([3, 3, 3, 3, 2, 1, None]),
                    "old": st.lists(st.sampled_from(["CONTINUOUS_NUMBERS", "DISCRETE_NUMBERS", "NUMERIC_FLUENTS", "ACTIONS_COST", "OVERSUBSCRIPTION", "CONTINUOUS_TIME", "DISCRETE_TIME"]), max_size=3, unique=True),
                }
            ),
            "opt": st.one_of(st.none(), st.sampled_from(OPT)),
            "any": st.one_of(st.none(), st.sampled_from(ANY)),
            "plan": st.one_of(st.none(), st.sampled_from(pks)),
            "ckinds": st.lists(st.tuples(st.integers(0, 63), st.booleans()), min_size=1, max_size=3),
            "with_ck": st.booleans(),
        }
    )


def _qualifies(cls, mode, kind, opt, any_, plan, ck):
    """the engine class's own predicates, asked directly"""
    if not getattr(cls, "is_" + mode)():
        return False, "mode"
    if mode in ("oneshot_planner", "replanner", "portfolio_selector", "plan_repairer"):
        if opt is not None and not cls.satisfies(opt):
            return False, "optimality"
    if mode in ("plan_validator", "plan_repairer"):
        if plan is not None and not cls.supports_plan(plan):
            return False, "plan-kind"
    if mode == "compiler":
        if ck is not None and not cls.supports_compilation(ck):
            return False, "compilation-kind"
    if mode == "anytime_planner":
        if any_ is not None and not cls.ensures(any_):
            return False, "anytime"
    if not cls.supports(kind):
        return False, "kind"
    return True, "ok"


def check(ctx, case):
    import unified_planning as up
    from unified_planning.engines import AnytimeGuarantee, CompilationKind, OperationMode, OptimalityGuarantee
    from unified_planning.environment import Environment
    from unified_planning.exceptions import UPNoSuitableEngineAvailableException
    from unified_planning.model import ProblemKind
    from unified_planning.plans import PlanKind

    from harness.stub_engines import STUBS

    U = case.get("universe")
    for n, cls in STUBS.items():
        t = case["stubs"][n]
        if U is None:  # explicit tables (hand-written / earlier regression inputs)
            cls.configure(t)
            continue
        pick = lambda idx: {U[i % len(U)] for i in idx}
        ckp = case["ckpool"]
        t = dict(t, ckinds={ckp[i % len(ckp)] for i in t["ckinds"]})
        feats_n = (set(U) - pick(t["drop"])) | set(t["plus"])
        if case["kind"].get("version", 3) != 3 and sum(t["drop"]) % 2 == 0:
            # requests declared at an older version: about half of the stubs support the old features as
            # named, but not necessarily what the documented upgrade rules make them imply
            feats_n |= {x for x in case["kind"].get("old", []) if x in all_features()}
        cls.configure(dict(t, features=feats_n, removes=pick(t["removes"]), adds=pick(t["adds"])))
    env = Environment()
    env.credits_stream = None
    f = env.factory
    for n in sorted(STUBS):
        f.add_engine(n, "harness.stub_engines", STUBS[n].__name__)
    names = sorted(f.engines)
    if case["pref"] is not None:
        pref = []
        for i in case["pref"]:
            n = names[i % len(names)]
            if n not in pref:
                pref.append(n)
        f.preference_list = pref
    pref = list(f.preference_list)

    # the requested kind
    kspec = case["kind"]
    mode = case["mode"]
    real_mode = "compiler" if mode == "pipeline" else mode
    # mostly a kind near what some engine of the requested mode supports
    of_mode = [n for n in pref if getattr(f.engine(n), "is_" + real_mode)()]
    stubs_of_mode = [n for n in of_mode if n.startswith("stub-")]
    sel = kspec["base"] % 4
    pool = names if (sel == 0 or not of_mode) else stubs_of_mode if (sel in (1, 2) and stubs_of_mode) else of_mode
    base_cls = f.engine(pool[kspec["base"] % len(pool)])
    try:
        base = sorted(base_cls.supported_kind().features)
    except Exception:
        base = []
    keep = kspec["keep"]
    allf = all_features()
    extra = set()
    for x in kspec["extra"]:
        if isinstance(x, str):  # earlier regression inputs name the feature
            extra.add(x)
        elif x[1] or not U:
            extra.add(allf[x[0] % len(allf)])
        else:
            extra.add(U[x[0] % len(U)])
    feats = {x for i, x in enumerate(base) if keep[i % len(keep)]} | extra
    kind = ProblemKind(feats, version=3)
    kv = kspec.get("version", 3)
    if kv != 3:
        from checks.c33 import ADDED_V2, ADDED_V3, DEPRECATED_V2

        vmax = 3 if kv is None else kv
        f2 = {x for x in feats if not (x in ADDED_V3 and vmax < 3) and not (x in ADDED_V2 and vmax < 2) and x not in DEPRECATED_V2}
        f2 |= {x for x in kspec.get("old", []) if not (x in DEPRECATED_V2 and kv is not None and kv >= 2)}
        if kv is None:
            f2 -= DEPRECATED_V2 if any(x in ADDED_V2 | ADDED_V3 for x in f2) else set()
        try:
            kind = ProblemKind(f2, version=kv)
            feats = f2
            ctx.cls(f"kind-version:{kv}")
        except Exception:
            kind = ProblemKind(feats, version=3)

    opt = OptimalityGuarantee[case["opt"]] if case["opt"] else None
    any_ = AnytimeGuarantee[case["any"]] if case["any"] else None
    plan = PlanKind[case["plan"]] if case["plan"] else None
    # compilation kinds: mostly ones some compiler of the preference list supports
    compilers = [f.engine(n) for n in pref if f.engine(n).is_compiler()]
    offered = [c for c in CompilationKind if any(e.supports_compilation(c) for e in compilers)] or list(CompilationKind)
    allck = list(CompilationKind)
    stub_cks = sorted({c for n in pref if n.startswith("stub-compiler") for c in CompilationKind if f.engine(n).supports_compilation(c)}, key=lambda c: c.value)
    cks = []
    for j, (i, anyck) in enumerate(case["ckinds"]):
        if anyck:
            cks.append(allck[i % len(allck)])
        elif stub_cks and (i + j) % 3:
            cks.append(stub_cks[i % len(stub_cks)])
        else:
            cks.append(offered[i % len(offered)])
    if mode == "pipeline" and case["with_ck"] and U is not None:
        # chain shape: stub compiler A serves the first compilation kind on a kind it supports (and partly
        # removes), stub compilers B and C both serve the second one, so that the choice of the second stage
        # depends on the kind produced by the first
        A, B, C = STUBS["stub-compiler-a"], STUBS["stub-compiler-b"], STUBS["stub-compiler-c"]
        if len(cks) < 2:
            cks = cks + cks
        if len(cks) < 3 and kspec["base"] % 2:
            cks = cks + [cks[0]]
        A.CKINDS = A.CKINDS | {cks[0].name}
        B.CKINDS = B.CKINDS | {cks[1].name}
        C.CKINDS = C.CKINDS | {cks[1].name}
        if len(cks) >= 3:
            # a third stage all three can serve: whether they qualify depends on what BOTH earlier stages did
            for S in (A, B, C):
                S.CKINDS = S.CKINDS | {cks[2].name}
            ctx.cls("pipeline:chain-shaped:3-stages")
        feats = {x for i, x in enumerate(sorted(A.FEATURES)) if keep[i % len(keep)] or x in A.REMOVES}
        kind = ProblemKind(feats, version=3)
        ctx.cls("pipeline:chain-shaped")
    if mode not in ("oneshot_planner", "replanner", "portfolio_selector", "plan_repairer"):
        opt = None
    if mode != "anytime_planner":
        any_ = None
    if mode not in ("plan_validator", "plan_repairer"):
        plan = None
    ck = cks[0] if (mode == "compiler" and case["with_ck"]) else None

    def qual(cls, k=kind, m=None, c=ck):
        try:
            return _qualifies(cls, m or ("compiler" if mode == "pipeline" else mode), k, opt, any_, plan, c)
        except Exception as e:
            raise Abstain(f"engine predicate raised {type(e).__name__}")

    def first_qualifying(k, c):
        for n in pref:
            if qual(f.engine(n), k, None, c)[0]:
                return f.engine(n)
        return None

    desc = f"mode={mode} kind={sorted(feats)} opt={case['opt'] if opt else None} any={case['any'] if any_ else None} plan={case['plan'] if plan else None} ck={[c.name for c in cks] if mode == 'pipeline' else (ck.name if ck else None)} pref={pref}"

    # ---- the request
    try:
        if mode == "oneshot_planner":
            got = f.OneshotPlanner(problem_kind=kind, optimality_guarantee=opt)
        elif mode == "anytime_planner":
            got = f.AnytimePlanner(problem_kind=kind, anytime_guarantee=any_)
        elif mode == "plan_validator":
            got = f.PlanValidator(problem_kind=kind, plan_kind=plan)
        elif mode == "compiler":
            got = f.Compiler(problem_kind=kind, compilation_kind=ck)
        elif mode == "pipeline":
            got = f.Compiler(problem_kind=kind, compilation_kinds=cks)
        elif mode == "plan_repairer":
            got = f.PlanRepairer(problem_kind=kind, plan_kind=plan, optimality_guarantee=opt)
        elif mode == "portfolio_selector":
            got = f.PortfolioSelector(problem_kind=kind, optimality_guarantee=opt)
        else:
            got = f._get_engine_class(OperationMode(mode), None, kind, opt)
        raised = None
    except UPNoSuitableEngineAvailableException as e:
        got, raised = None, e
    except Exception as e:
        tag = ""
        if isinstance(e, AssertionError) and kind.version < 3 and "ProblemKind's declared version" in str(e):
            # a built-in compiler's resulting_problem_kind sets a feature newer than the version the
            # requested kind was declared at (known finding; any other exception keeps the bare signature)
            tag = ":result-needs-newer-version-than-declared"
        raise Violation(f"selection-raised:{mode}:{type(e).__name__}{tag}", f"{desc}: {e!r}", case)

    # ---- non-triviality: something of the right mode had to be rejected
    rejected = False
    if mode == "pipeline":
        k = kind
        for c in cks:
            for n in pref:
                ok, why = qual(f.engine(n), k, None, c)
                if not ok and why != "mode":
                    rejected = True
            nxt = first_qualifying(k, c)
            if nxt is None:
                break
            k = nxt.resulting_problem_kind(k, c)
    else:
        for n in pref:
            ok, why = qual(f.engine(n))
            if not ok and why != "mode":
                rejected = True

    # ---- oracle
    if mode == "pipeline":
        # preference-ordered expected path
        k = kind
        expect_ok = True
        for c in cks:
            nxt = first_qualifying(k, c)
            if nxt is None:
                expect_ok = False
                whys = {qual(f.engine(n), k, None, c)[1] for n in pref}
                ctx.cls("pipeline-dead-end:" + ("kind" if "kind" in whys else "compilation-kind" if "compilation-kind" in whys else "no-compiler"))
                break
            k = nxt.resulting_problem_kind(k, c)
        if raised is not None:
            if expect_ok:
                raise Violation("spurious-no-suitable-engine:pipeline", f"{desc}: raised although the preference-ordered pipeline exists", case)
            ctx.cls("raised:pipeline")
        else:
            comps = list(got._compilers)
            if len(comps) != len(cks):
                raise Violation("pipeline-length", f"{desc}: {len(comps)} compilers for {len(cks)} compilation kinds", case)
            k = kind
            for i, (cobj, c) in enumerate(zip(comps, cks)):
                cls = type(cobj)
                ok, why = qual(cls, k, None, c)
                if not ok:
                    raise Violation(f"pipeline-stage-unqualified:{why}", f"{desc}: stage {i} ({cobj.name}) does not qualify ({why}) for kind {sorted(k.features)} / {c.name}", case)
                k = cls.resulting_problem_kind(k, c)
                if i + 1 < len(cks) and set(k.features) != set(kind.features):
                    ctx.cls("pipeline:later-stage-sees-changed-kind")
            ctx.cls("returned:pipeline")
    else:
        any_ok = any(qual(f.engine(n))[0] for n in pref)
        if raised is not None:
            if any_ok:
                raise Violation(f"spurious-no-suitable-engine:{mode}", f"{desc}: raised although {[n for n in pref if qual(f.engine(n))[0]][:3]} qualify", case)
            ctx.cls(f"raised:{mode}")
        else:
            cls = got if isinstance(got, type) else type(got)
            ok, why = qual(cls)
            if not ok:
                raise Violation(f"unqualified-engine:{mode}:{why}", f"{desc}: returned {cls.__name__} which fails its own {why} predicate", case)
            ctx.cls(f"returned:{mode}")
    if rejected:
        ctx.nontriv(case_hash(case), {"request": desc, "outcome": "raised" if raised is not None else "returned"})


def shard(ctx):
    ctx.run_hypothesis(strategy(), lambda case: check(ctx, case), ctx.scale(8000, 120000))


def replay(ctx, case):
    check(ctx, case)
