"""C01 — the sequential simulator computes the documented successor semantics.

Differential against the harness reference semantics (harness/refsim.py) on every
ground action instance in every state reachable within a depth bound.
"""

from __future__ import annotations

from harness import gen
from harness.core import Abstain, HarnessError, Violation
from harness.refsim import UNDEF, Inapplicable, freeze
from harness.simcmp import (
    diff_states,
    ground_fluent_exps,
    normalize_spec,
    params_fnodes,
    read_up_state,
)

PROPERTY = "C01"
RULE = (
    "Hypothesis draws small problems from the seq-full grammar (bool/int/real/object fluents with "
    "parameters, hierarchy, quantified/disjunctive conditions, conditional+forall assign/increase/decrease "
    "effects, interpreted functions, bounds, invariants, undefined initial values); BFS over reference "
    "states to depth 3 (quick) / 4; every ground action instance in every state is one evaluation. "
    "Non-trivial = (state, instance) pair where a forall effect expands to >=2 ground effects, a Boolean is "
    "assigned both values, two assignments hit one numeric/object fluent, >=2 inc/dec accumulate, the "
    "successor violates a bound/invariant, or an undefined fluent is read; distinct by hash of "
    "(problem spec, reference state, instance)."
)
SHARDS = {"quick": 8, "thorough": 16}
PROFILE = gen.SEQ_FULL


def check_problem(ctx, spec, depth, max_states, sim_factory=None, queries=None):
    """Shared by C01/C02: walks the reachable space comparing UP with the reference."""
    from unified_planning.engines.sequential_simulator import UPSequentialSimulator

    spec, b, ref = normalize_spec(spec)
    problem = b.problem
    em = b.em
    sim = UPSequentialSimulator(problem)
    gfe = ground_fluent_exps(problem, ref)
    try:
        up0 = sim.get_initial_state()
    except Exception as e:
        raise Violation(f"init-exception:{type(e).__name__}", f"get_initial_state raised {e!r}", spec)
    r0 = ref.initial_state()
    d = diff_states(r0, read_up_state(up0, gfe))
    if d:
        raise Violation("initial-state-differs", "; ".join(d[:5]), spec)
    seen = {freeze(r0)}
    frontier = [(r0, up0, [])]
    instances = [(a, args) for a in problem.actions for args in ref.instances(a)]
    nstates = 0
    for level in range(depth + 1):
        nxt = []
        for rstate, ustate, path in frontier:
            nstates += 1
            # goal test
            try:
                rgoal = ref.goal(rstate)
            except Abstain as ab:
                ctx.abstain(ab.reason)
                rgoal = None
            try:
                ugoal = sim.is_goal(ustate)
            except Exception as e:
                raise Violation(f"is_goal-exception:{type(e).__name__}", f"is_goal raised {e!r} after path {path}", spec, {"path": path})
            if rgoal is not None and ugoal != rgoal:
                raise Violation("goal-verdict-differs", f"is_goal={ugoal} reference={rgoal} after path {path}", spec, {"path": path})
            for a, args in instances:
                info = {}
                step = [a.name, [str(x) for x in args]]
                ctx.evaluations += 1
                try:
                    rsucc, why = ref.try_apply(rstate, a, args, info)
                except Abstain as ab:
                    ctx.abstain(ab.reason)
                    continue
                ps = params_fnodes(problem, em, a, args)
                try:
                    usucc = sim.apply(ustate, a, ps)
                except Exception as e:
                    raise Violation(
                        f"apply-exception:{type(e).__name__}",
                        f"apply raised {e!r} at path {path} step {step} (reference: {'applicable' if rsucc is not None else why})",
                        spec,
                        {"path": path, "step": step},
                    )
                flags = sorted(k for k, v in info.items() if v)
                for fl in flags:
                    ctx.cls(fl)
                ctx.cls("applicable" if rsucc is not None else f"inapplicable:{why}")
                if flags:
                    ctx.nontriv([ctx_hash(spec), freeze_key(rstate), step], {"problem": spec, "path": path, "step": step, "flags": flags})
                if rsucc is None:
                    if usucc is not None:
                        raise Violation(
                            f"applied-but-reference-inapplicable:{why}",
                            f"path {path} step {step}: UP returned a successor, reference says inapplicable ({why})",
                            spec,
                            {"path": path, "step": step},
                        )
                    continue
                if usucc is None:
                    raise Violation(
                        "rejected-but-reference-applicable",
                        f"path {path} step {step}: UP apply returned None, reference gives a successor (flags {flags})",
                        spec,
                        {"path": path, "step": step},
                    )
                d = diff_states(rsucc, read_up_state(usucc, gfe))
                if d:
                    raise Violation(
                        "successor-differs",
                        f"path {path} step {step}: " + "; ".join(d[:5]) + f" (flags {flags})",
                        spec,
                        {"path": path, "step": step},
                    )
                if queries is not None:
                    queries(sim, ustate, a, ps, usucc)
                k = freeze(rsucc)
                if k not in seen and level < depth and len(seen) < max_states:
                    seen.add(k)
                    nxt.append((rsucc, usucc, path + [step]))
        frontier = nxt
        if not frontier:
            break
    ctx.extra["states_explored"] = ctx.extra.get("states_explored", 0) + nstates
    return spec


def ctx_hash(spec):
    from harness.core import case_hash

    return case_hash(spec)


def freeze_key(state):
    from harness.core import case_hash

    return case_hash([[k[0], list(map(str, k[1])), str(v)] for k, v in sorted(state.items(), key=repr)])


def oracle_factory(ctx):
    depth = 3 if ctx.quick else 4
    max_states = 40 if ctx.quick else 150

    def oracle(spec):
        # guard() already counted one evaluation for the problem; the per-pair counts are
        # added inside check_problem
        check_problem(ctx, spec, depth, max_states)

    return oracle


def shard(ctx):
    n = ctx.scale(16000, 80000)
    ctx.run_hypothesis(gen.problems(PROFILE), oracle_factory(ctx), n)


def replay(ctx, case):
    check_problem(ctx, case, 4, 200)
