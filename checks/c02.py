"""C02 — simulator applicability queries agree with apply; queries are pure."""

from __future__ import annotations

from hypothesis import strategies as st

from harness import gen
from harness.core import Abstain, Violation
from harness.refsim import UNDEF, freeze
from harness.simcmp import ground_fluent_exps, normalize_spec, params_fnodes, read_up_state

PROPERTY = "C02"
TECHNIQUE = "property-based differential between the simulator's own query paths (is_applicable vs apply vs get_applicable_actions; is_goal vs get_unsatisfied_goals) + purity snapshots"
RULE = (
    "Problems from the C01 grammar; all states reachable within depth 2 (quick) / 3 via the simulator's own apply; in every "
    "state every ground action instance (harness enumeration over all objects of the parameter types) is queried with "
    "is_applicable and apply in a generated order on ONE simulator instance, plus get_applicable_actions (also abandoned after "
    "one or two items, and two enumerations interleaved, before the other queries), is_goal, "
    "get_unsatisfied_goals, get_unsatisfied_conditions; the state is snapshotted before/after and every query is repeated at "
    "the end.  Non-trivial = state in which some instance is rejected although its preconditions hold (conflict, bound, "
    "invariant, undefined value) or accepted with a forall / conditional effect; distinct by (problem, state)."
)
SHARDS = {"quick": 8, "thorough": 16}
PROFILE = gen.SEQ_FULL


def check(ctx, case):
    from unified_planning.engines.sequential_simulator import UPSequentialSimulator
    from unified_planning.exceptions import UPStateMissingFluentError

    spec, b, ref = normalize_spec(case["problem"])
    problem, em = b.problem, b.em
    order_seed = case["order"]
    sim = UPSequentialSimulator(problem)
    gfe = ground_fluent_exps(problem, ref)
    s0 = sim.get_initial_state()
    instances = [(a, args, params_fnodes(problem, em, a, args)) for a in problem.actions for args in ref.instances(a)]
    depth = case.get("depth", 2)
    seen = {freeze(read_up_state(s0, gfe))}
    frontier = [(s0, [])]
    nstates = 0
    for level in range(depth + 1):
        nxt = []
        for state, path in frontier:
            nstates += 1
            snap = read_up_state(state, gfe)
            h0 = hash(state)
            # a pseudo-random but case-determined query order
            order = list(range(len(instances)))
            k = (order_seed + nstates * 7919) % max(1, len(order))
            order = order[k:] + order[:k]
            if (order_seed + nstates) % 2:
                order.reverse()
            first = {}
            succ_of = {}
            interesting = False

            def q_applicable(i):
                a, args, ps = instances[i]
                try:
                    return sim.is_applicable(state, a, ps)
                except Exception as e:
                    raise Violation(f"is_applicable-exception:{type(e).__name__}", f"path {path} {a.name}{list(args)}: {e!r}", case, {"path": path})

            def q_apply(i):
                a, args, ps = instances[i]
                try:
                    return sim.apply(state, a, ps)
                except Exception as e:
                    raise Violation(f"apply-exception:{type(e).__name__}", f"path {path} {a.name}{list(args)}: {e!r}", case, {"path": path})

            # history: the enumeration query may be abandoned half-way or run twice interleaved
            # (it is a generator); neither may change what any later query answers
            mode = (order_seed + nstates) % 4
            try:
                if mode == 0:
                    it = iter(sim.get_applicable_actions(state))
                    for _ in range(1 + order_seed % 2):
                        next(it, None)
                    del it
                elif mode == 1:
                    it1, it2 = iter(sim.get_applicable_actions(state)), iter(sim.get_applicable_actions(state))
                    g1, g2 = [], []
                    while True:
                        x1, x2 = next(it1, None), next(it2, None)
                        if x1 is None and x2 is None:
                            break
                        if x1 is not None:
                            g1.append((x1[0].name, tuple(map(str, x1[1]))))
                        if x2 is not None:
                            g2.append((x2[0].name, tuple(map(str, x2[1]))))
                    if set(g1) != set(g2):
                        raise Violation("get_applicable_actions-differs", f"path {path}: two interleaved enumerations differ: {sorted(set(g1) ^ set(g2))[:3]}", case, {"path": path})
            except Violation:
                raise
            except Exception as e:
                raise Violation(f"get_applicable_actions-exception:{type(e).__name__}", f"path {path}: {e!r}", case, {"path": path})
            for n, i in enumerate(order):
                a, args, ps = instances[i]
                if (order_seed + n) % 3 == 0:
                    r1 = q_apply(i)
                    r0 = q_applicable(i)
                else:
                    r0 = q_applicable(i)
                    r1 = q_apply(i)
                ctx.evaluations += 1
                if r0 != (r1 is not None):
                    # classify for the report: which side is the odd one out
                    try:
                        unsat, reason = sim.get_unsatisfied_conditions(state, a, ps, full_check=True)
                        why = str(reason)
                    except Exception as e:
                        why = type(e).__name__
                    raise Violation(
                        "is_applicable-disagrees-with-apply:" + ("applicable-but-apply-none" if r0 else "inapplicable-but-apply-succeeds"),
                        f"path {path} {a.name}{list(args)}: is_applicable={r0}, apply returned {'a state' if r1 is not None else 'None'} (full check says {why})",
                        case,
                        {"path": path, "step": [a.name, list(map(str, args))]},
                    )
                first[i] = r0
                succ_of[i] = r1
                if not r0:
                    try:
                        unsat, reason = sim.get_unsatisfied_conditions(state, a, ps)
                        if reason is None:
                            interesting = True
                    except UPStateMissingFluentError:
                        interesting = True
                    except Exception:
                        pass
                elif a.conditional_effects or any(e.is_forall() for e in a.effects):
                    interesting = True
            # get_applicable_actions == {instances for which apply succeeds}
            try:
                got = {(a.name, tuple(map(str, ps))) for a, ps in sim.get_applicable_actions(state)}
            except Exception as e:
                raise Violation(f"get_applicable_actions-exception:{type(e).__name__}", f"path {path}: {e!r}", case, {"path": path})
            exp = {(instances[i][0].name, tuple(map(str, instances[i][2]))) for i in first if first[i]}
            if got != exp:
                raise Violation(
                    "get_applicable_actions-differs",
                    f"path {path}: missing {sorted(exp - got)[:3]} extra {sorted(got - exp)[:3]}",
                    case,
                    {"path": path},
                )
            # goals
            try:
                g = sim.is_goal(state)
            except Exception as e:
                raise Violation(f"is_goal-exception:{type(e).__name__}", f"path {path}: {e!r}", case, {"path": path})
            try:
                ug = sim.get_unsatisfied_goals(state)
                ug_empty = len(ug) == 0
            except UPStateMissingFluentError:
                ug_empty = False
            except Exception as e:
                raise Violation(f"get_unsatisfied_goals-exception:{type(e).__name__}", f"path {path}: {e!r}", case, {"path": path})
            if g != ug_empty:
                raise Violation("is_goal-disagrees-with-unsatisfied-goals", f"path {path}: is_goal={g}, get_unsatisfied_goals empty={ug_empty}", case, {"path": path})
            # purity: state unchanged, answers repeat
            if read_up_state(state, gfe) != snap or hash(state) != h0:
                raise Violation("query-changed-state", f"path {path}: the state passed to the queries changed", case, {"path": path})
            for i in order[:6]:
                if q_applicable(i) != first[i]:
                    raise Violation("query-answer-changed", f"path {path}: is_applicable of {instances[i][0].name}{list(instances[i][1])} changed when asked again", case, {"path": path})
            if sim.is_goal(state) != g:
                raise Violation("query-answer-changed", f"path {path}: is_goal changed when asked again", case, {"path": path})
            if interesting:
                ctx.nontriv([spec_hash(spec), str(freeze(snap))])
                ctx.cls("interesting-state")
            ctx.cls("state")
            if level < depth:
                for i, r1 in succ_of.items():
                    if r1 is None:
                        continue
                    k2 = freeze(read_up_state(r1, gfe))
                    if k2 not in seen and len(seen) < case.get("max_states", 25):
                        seen.add(k2)
                        nxt.append((r1, path + [[instances[i][0].name, list(map(str, instances[i][1]))]]))
        frontier = nxt
        if not frontier:
            break


def spec_hash(spec):
    from harness.core import case_hash

    return case_hash(spec)


def strategy(ctx):
    return st.fixed_dictionaries(
        {"problem": gen.problems(PROFILE), "order": st.integers(0, 1000), "depth": st.just(2 if ctx.quick else 3), "max_states": st.just(25 if ctx.quick else 80)}
    )


def shard(ctx):
    def oracle(case):
        ctx.evaluations -= 1
        check(ctx, case)

    ctx.run_hypothesis(strategy(ctx), oracle, ctx.scale(1600, 30000))


def replay(ctx, case):
    check(ctx, case)
