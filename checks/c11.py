"""C11 — simplification preserves the meaning of expressions."""

from __future__ import annotations

from fractions import Fraction

from hypothesis import strategies as st

from harness import gen
from harness.core import Abstain, Violation
from harness.exprcase import build_case, interpretations
from harness.refsim import UNDEF, Evaluator, initial_state
from unified_planning.model.operators import OperatorKind as OK

PROPERTY = "C11"
TECHNIQUE = "property-based testing; evaluation under generated interpretations with the reference evaluator (exact Fractions), free-variable and idempotence checks"
RULE = (
    "Typed Boolean and numeric expressions (depth <= 4) over 2 user types in a hierarchy, <=4 objects, Boolean/numeric/object "
    "fluents with parameters, action parameters, free and bound variables (shadowing), interpreted functions, constants of "
    "three magnitude classes (small, >2^53, rationals).  Two modes: FNode.simplify() and Simplifier(env, problem) where some "
    "fluents are static and pinned to their initial values.  Each expression is evaluated before/after under <=64 "
    "interpretations (exhaustive when <=256 combinations).  Non-trivial = simplified form differs from the original and the "
    "expression contains constant folding over >=2 numeric constants, a quantifier, a static fluent, an interpreted function "
    "or nested And/Or; distinct by hash of (expression spec, mode)."
)
SHARDS = {"quick": 8, "thorough": 16}
PROFILE = gen.Profile(ifuns=True, big_consts=True, exists_eq_bias=True, const_atoms=True, max_fluents=5, max_objects=4, int_params=True)


def free_vars(n, bound=frozenset()):
    t = n.node_type
    if t == OK.VARIABLE_EXP:
        v = n.variable()
        return set() if v in bound else {v}
    if t in (OK.EXISTS, OK.FORALL):
        return free_vars(n.arg(0), bound | set(n.variables()))
    out = set()
    for a in n.args:
        out |= free_vars(a, bound)
    return out


def features(spec, acc):
    if isinstance(spec, list) and spec:
        op = spec[0]
        if op in ("exists", "forall"):
            acc.add("quantifier")
        if op == "ifn":
            acc.add("ifun")
        if op in ("+", "*", "-", "/") and sum(1 for a in spec[1:] if isinstance(a, list) and a[0] in ("i", "r")) >= 2:
            acc.add("constfold")
        if op in ("and", "or") and any(isinstance(a, list) and a[0] == op for a in spec[1:]):
            acc.add("nested")
        for s in spec[1:]:
            features(s, acc)


@st.composite
def cases(draw):
    g = gen.Gen(draw, PROFILE)
    g.gen_types()
    g.gen_fluents()
    g.gen_ifuns()
    init = g.gen_init()
    params = []
    for k in range(g.i(0, 2)):
        params.append([f"p{k}", ["int", -2, 3]] if g.b(0.3) else [f"p{k}", ["user", g.pick(g.types)[0]]])
    free = [[f"w{k}", ["user", g.pick(g.types)[0]]] for k in range(g.i(0, 1))]
    scope = {"params": [(n, t) for n, t in params], "vars": [(n, t) for n, t in free]}
    want_bool = g.b(0.65)
    e = g.bool_expr(scope, g.i(1, 4)) if want_bool else g.num_expr(scope, g.i(1, 4))
    dynamic = [f["name"] for f in g.fluents if g.b(0.5)]
    actions = []
    for f in g.fluents:
        if f["name"] in dynamic:
            v = g.const_of(f["type"])
            if v is None:
                continue
            ps = [[f"q{k}", pt] for k, (_, pt) in enumerate(f["params"])]
            actions.append({"name": "touch_" + f["name"], "params": ps, "pre": [], "eff": [{"kind": "assign", "fl": ["fl", f["name"]] + [["par", p[0]] for p in ps], "val": v, "cond": None, "forall": []}]})
    sig = {"types": [list(t) for t in g.types], "objects": [list(o) for o in g.objects], "fluents": g.fluents, "ifuns": g.ifuns, "init": init, "actions": actions}
    return {"sig": sig, "params": params, "free": free, "bool": [e] if want_bool else [], "num": [] if want_bool else [e], "iseed": g.i(0, 2**20), "mode": g.pick(["plain", "problem"])}


def oracle_factory(ctx):
    from unified_planning.model.walkers import Simplifier

    def oracle(case):
        b = build_case(case)
        espec = (case["bool"] + case["num"])[0]
        e = b.expr(espec)
        mode = case["mode"]
        pinned = None
        try:
            if mode == "plain":
                s = e.simplify()
                s2 = s.simplify()
            else:
                simp = Simplifier(b.env, b.problem)
                s = simp.simplify(e)
                s2 = Simplifier(b.env, b.problem).simplify(s)
                static = {f.name for f in b.problem.get_static_fluents()}
                s0 = initial_state(b.problem)
                pinned = {k: v for k, v in s0.items() if k[0] in static and v is not UNDEF}
        except Exception as ex:
            raise Violation(f"exception:{type(ex).__name__}", f"simplify({e}) raised {ex!r}", case)
        fv0, fv1 = free_vars(e), free_vars(s)
        if not fv1 <= fv0:
            raise Violation("new-free-variable", f"simplify({e}) = {s} has new free variables {fv1 - fv0}", case)
        E = Evaluator(b.problem)
        n = 0
        for state, pb, vb in interpretations(b, case, espec, 64, big=True, pinned=pinned):
            try:
                v0 = E.ev(e, state, pb, vb)[0]
            except Abstain:
                continue  # a divisor of the original is zero under this interpretation
            except KeyError:
                raise
            if v0 is UNDEF:
                continue
            try:
                v1 = E.ev(s, state, pb, vb)[0]
            except Abstain:
                v1 = "division by zero"
            except KeyError as ke:
                v1 = f"unbound variable {ke}"
            n += 1
            if v1 != v0 or isinstance(v1, bool) != isinstance(v0, bool):
                kinds = sorted({k for k in ("exists", "forall", "/", "*", "-", "+", "iff", "implies", "ifn") if _has(espec, k)})
                raise Violation(
                    "value-differs:" + ("quantifier" if "exists" in kinds or "forall" in kinds else "div" if "/" in kinds else "other"),
                    f"[{mode}] {e} = {v0} but simplified {s} = {v1} under {fmt(state, pb, vb)}",
                    case,
                )
        if s2 is not s:
            raise Violation("not-idempotent", f"[{mode}] simplify({e}) = {s}, simplifying again gives {s2}", case)
        feats = set()
        features(espec, feats)
        if mode == "problem" and pinned:
            feats.add("static")
        ctx.cls("mode:" + mode)
        for f in feats:
            ctx.cls(f)
        if s is not e:
            ctx.cls("changed")
        if n and s is not e and feats:
            ctx.nontriv([espec, mode], {"expr": str(e), "simplified": str(s), "mode": mode})

    return oracle


def _has(spec, op):
    if isinstance(spec, list) and spec:
        return spec[0] == op or any(_has(s, op) for s in spec[1:])
    return False


def fmt(state, pb, vb):
    return {"state": {f"{k[0]}{list(k[1])}": str(v) for k, v in state.items()}, "params": {k: str(v) for k, v in pb.items()}, "vars": {k[0]: v for k, v in vb.items()}}


def shard(ctx):
    ctx.run_hypothesis(cases(), oracle_factory(ctx), ctx.scale(4000, 100000))


def replay(ctx, case):
    oracle_factory(ctx)(case)
