"""C25 — DeltaSTN decides temporal consistency exactly.

(a) exhaustive prefix tree of insertion sequences (every branch through copy_stn),
(b) Hypothesis histories with rational bounds, copies, insertions into old copies,
insert_interval; oracle = Bellman-Ford / longest paths on the inserted constraints.
"""

from __future__ import annotations

from fractions import Fraction
from itertools import product

from hypothesis import strategies as st

from harness.core import CaseTimeout, Violation

PROPERTY = "C25"
TECHNIQUE = "exhaustive enumeration of short insertion histories + model-based history testing against Bellman-Ford"
RULE = (
    "(a) all insertion sequences of length <= L over n events with bounds in {-2..2} (quick: n=3,L=3 = 93,196 prefix-tree "
    "nodes; thorough: n=3,L=4 and n=4,L=3), every node reached through copy_stn of its parent; "
    "(b) Hypothesis op lists: add / insert_interval / copy / switch-to-older-copy over <=8 events with int, Fraction and "
    "mixed bounds; (c) dense propagation-heavy op lists over <=5 events (mostly negative precedence bounds, a few positive "
    "deadlines, copies).  After every op: check_stn <=> no negative cycle; if consistent the model satisfies every constraint, is "
    ">= 0 and equals the least non-negative solution; inconsistent stays inconsistent; sources of copies are unchanged.  "
    "Non-trivial = history containing a cycle among its constraints, a subsumed constraint, or an insertion into a copy "
    "older than its source's latest insertion; distinct by the op sequence."
)
SHARDS = {"quick": 8, "thorough": 16}
HANG_IS_VIOLATION = True  # a decision procedure / planning loop that does not return is the property failing


def solve(constraints, events):
    """constraints: list of (x, y, b) meaning x - y <= b.  Returns None if infeasible, else the
    least non-negative solution {e: t}."""
    t = {e: Fraction(0) for e in events}
    n = len(events)
    for it in range(n + 1):
        changed = False
        for x, y, b in constraints:
            # t(y) >= t(x) - b
            if t[x] - b > t[y]:
                t[y] = t[x] - b
                changed = True
        if not changed:
            return t
    return None


def has_cycle(constraints):
    adj = {}
    for x, y, b in constraints:
        adj.setdefault(x, set()).add(y)
    seen = {}

    def dfs(u):
        seen[u] = 1
        for v in adj.get(u, ()):
            if seen.get(v) == 1:
                return True
            if v not in seen and dfs(v):
                return True
        seen[u] = 2
        return False

    return any(dfs(u) for u in list(adj) if u not in seen)


def check_node(stn, constraints, events, was_unsat, case):
    sol = solve(constraints, events) if not was_unsat else None
    got = stn.check_stn()
    exp = sol is not None
    if got != exp:
        raise Violation(
            "consistency-differs",
            f"check_stn()={got} but constraints are {'feasible' if exp else 'infeasible'}: {constraints}",
            case,
        )
    if exp:
        for e in events:
            try:
                m = stn.get_stn_model(e)
            except Exception as ex:
                raise Violation(f"model-exception:{type(ex).__name__}", f"get_stn_model({e}) raised {ex!r}", case)
            if m != sol[e]:
                bad = [(x, y, b) for x, y, b in constraints if stn.get_stn_model(x) - stn.get_stn_model(y) > b]
                raise Violation(
                    "model-violates-constraint" if bad else ("model-negative" if m < 0 else "model-not-least"),
                    f"event {e}: model {m}, least non-negative solution {sol[e]}; violated: {bad}",
                    case,
                )
    return exp


def run_sequence(case):
    """case = {"ops": [...]} replayable form used by both generators."""
    from unified_planning.model.delta_stn import DeltaSimpleTemporalNetwork

    nets = [[DeltaSimpleTemporalNetwork(), [], set(), False]]  # stn, constraints, events, unsat
    cur = 0
    flags = set()
    for op in case["ops"]:
        k = op[0]
        stn, cons, evs, unsat = nets[cur]
        if k == "add":
            _, x, y, b = op
            b = Fraction(b) if isinstance(b, str) else b
            if any(cx == x and cy == y and cb <= b for cx, cy, cb in cons):
                flags.add("subsumed")
            stn.add(x, y, b)
            if not unsat:
                cons.append((x, y, b))
                evs.update((x, y))
        elif k == "interval":
            _, l, r, lb, rb = op
            lb = Fraction(lb) if isinstance(lb, str) else lb
            rb = Fraction(rb) if isinstance(rb, str) else rb
            stn.insert_interval(l, r, left_bound=lb, right_bound=rb)
            if not unsat:
                if lb is not None:
                    cons.append((l, r, -lb))
                    evs.update((l, r))
                    # the second insertion only registers if still consistent
                    if rb is not None and solve(cons, evs) is not None:
                        cons.append((r, l, rb))
                elif rb is not None:
                    cons.append((r, l, rb))
                    evs.update((l, r))
                else:
                    evs.update((l, r))
        elif k == "copy":
            c = stn.copy_stn()
            nets.append([c, list(cons), set(evs), unsat])
        elif k == "switch":
            new = op[1] % len(nets)
            if new != cur and new < cur:
                flags.add("old_copy")
            cur = new
            continue
        # after a mutation of nets[cur], every other network must be unchanged: verify all
        for i, (s, c, e, u) in enumerate(nets):
            ok = check_node(s, c, e, u, case)
            if not ok:
                nets[i][3] = True
        if has_cycle(nets[cur][1]):
            flags.add("cycle")
    return flags


def exhaustive(ctx, n, L):
    """Prefix tree over (x, y, b); each child is reached through copy_stn of the parent."""
    from unified_planning.model.delta_stn import DeltaSimpleTemporalNetwork

    choices = [(x, y, b) for x in range(n) for y in range(n) for b in (-2, -1, 0, 1, 2)]
    mine = [c for i, c in enumerate(choices) if i % ctx.nshards == ctx.shard]

    def rec(stn, cons, evs, unsat, depth, firsts):
        for c in firsts:
            if ctx.failure is not None:
                return
            x, y, b = c
            ccons = cons + [c] if not unsat else cons
            cevs = evs | {x, y} if not unsat else evs
            case = {"ops": [["add", *cc] for cc in (cons + [c])], "via_copies": True}
            ctx.evaluations += 1
            try:
                child = stn.copy_stn()
                ctx.timed(child.add, x, y, b)
                ok = check_node(child, ccons, cevs, unsat, case)
                # the parent must be untouched by the child's insertion
                check_node(stn, cons, evs, unsat, case)
            except CaseTimeout:
                ctx.failure = {"size": 1, "sig": "hang", "message": "add() did not return (non-termination)", "case": case, "extra": None}
                return
            except Violation as v:
                if v.sig in ctx.known_sigs:
                    ctx.excluded_known[v.sig] += 1
                    continue
                ctx._record_failure(v, case)
                return
            if len(ccons) >= 2 and (has_cycle(ccons) or any(cx == x and cy == y and cb <= b for cx, cy, cb in cons)):
                ctx.nontrivial.add(hash(tuple(ccons)) & 0xFFFFFFFFFFFF)
                if len(ctx.samples) < 3:
                    ctx.samples.append(case)
            if depth + 1 < L:
                rec(child, ccons, cevs, unsat or not ok, depth + 1, choices)

    rec(DeltaSimpleTemporalNetwork(), [], set(), False, 0, mine)


def strategy(ctx):
    ev = st.integers(0, 7)
    small = st.integers(-4, 6)
    fr = st.builds(lambda a, d: str(Fraction(a, d)), st.integers(-9, 12), st.sampled_from([1, 2, 3, 4]))
    bound = st.one_of(small, small, fr)
    op = st.one_of(
        st.tuples(st.just("add"), ev, ev, bound),
        st.tuples(st.just("add"), ev, ev, bound),
        st.tuples(st.just("add"), st.integers(0, 2), st.integers(0, 2), small),
        st.tuples(st.just("interval"), ev, ev, st.one_of(st.none(), bound), st.one_of(st.none(), bound)),
        st.tuples(st.just("copy")),
        st.tuples(st.just("switch"), st.integers(0, 5)),
    )
    return st.fixed_dictionaries({"ops": st.lists(op, min_size=1, max_size=40 if ctx.quick else 60).map(lambda l: [list(o) for o in l])})


def dense_strategy(ctx):
    """propagation-heavy histories: few events, many precedence arcs (negative bounds push the model
    forward through chains and diamonds), a few deadlines (positive bounds closing cycles), insertion
    order free - the shapes where the incremental propagation can differ from the fixpoint"""
    ev = st.integers(0, 4)
    neg = st.sampled_from([-1, -1, -2, -3, -5, "-1/2", -10])
    pos = st.sampled_from([0, 1, 3, 6, 9, 14, "7/2"])
    op = st.one_of(
        st.tuples(st.just("add"), ev, ev, neg),
        st.tuples(st.just("add"), ev, ev, neg),
        st.tuples(st.just("add"), ev, ev, neg),
        st.tuples(st.just("add"), ev, ev, pos),
        st.tuples(st.just("copy")),
        st.tuples(st.just("switch"), st.integers(0, 3)),
    )
    return st.fixed_dictionaries({"ops": st.lists(op, min_size=4, max_size=16 if ctx.quick else 24).map(lambda l: [list(o) for o in l])})


def oracle_factory(ctx):
    def oracle(case):
        flags = run_sequence(case)
        for f in flags:
            ctx.cls(f)
        if flags:
            ctx.nontriv(case)

    return oracle


def shard(ctx):
    if ctx.quick:
        exhaustive(ctx, 3, 3)
        ctx.exhaustive = True
    else:
        exhaustive(ctx, 3, 4)
        exhaustive(ctx, 4, 3)
        ctx.exhaustive = True
    ctx.extra["exhaustive_space"] = "n=3,L=3" if ctx.quick else "n=3,L=4 and n=4,L=3"
    ctx.nontrivial = {f"{h:x}" for h in ctx.nontrivial}
    ctx.run_hypothesis(strategy(ctx), oracle_factory(ctx), ctx.scale(8000, 100000))
    ctx.run_hypothesis(dense_strategy(ctx), oracle_factory(ctx), ctx.scale(12000, 200000), salt=1)


def replay(ctx, case):
    if case.get("via_copies"):
        from unified_planning.model.delta_stn import DeltaSimpleTemporalNetwork

        stn = DeltaSimpleTemporalNetwork()
        cons, evs, unsat = [], set(), False
        for _, x, y, b in case["ops"]:
            child = stn.copy_stn()
            child.add(x, y, b)
            ccons = cons + [(x, y, b)] if not unsat else cons
            cevs = evs | {x, y} if not unsat else evs
            ok = check_node(child, ccons, cevs, unsat, case)
            check_node(stn, cons, evs, unsat, case)
            stn, cons, evs, unsat = child, ccons, cevs, unsat or not ok
        return
    run_sequence(case)
