"""C16 — expressions are hash-consed; constructors normalise as documented."""

from __future__ import annotations

from fractions import Fraction

from hypothesis import strategies as st

from harness.core import Violation

PROPERTY = "C16"
TECHNIQUE = "model-based history testing (Hypothesis operation lists over one environment) against a structural-key -> node map"
RULE = (
    "A case is a list of <= 60 (quick) / 150 constructor calls on one fresh Environment; arguments are indices into the pool "
    "of previously built nodes (repetitions and deep sharing are frequent) or fresh leaves / numeric literals given as int, "
    "Fraction, float or str; a share of the calls is ill-typed on purpose.  Model: dict structural key -> node where the key "
    "applies only the documented normalisations (And/Or/Plus/Times with 0 or 1 argument, Not(Not x), GE/GT as mirrored LE/LT, "
    "numeric literal -> canonical Int/Real).  Invariants after every call: same key => identical object, different keys => "
    "different objects and ids, ids unique, recorded (node_type, args, payload) unchanged, node.environment is the machine's; "
    "an ill-typed construction raises UPTypeError every time it is attempted.  Non-trivial = history with >= 20 constructions, "
    ">= 5 repeats and >= 3 different normalisations; distinct by hash of the op list."
)
SHARDS = {"quick": 8, "thorough": 16}

OPS = ["and", "or", "not", "implies", "iff", "plus", "times", "minus", "div", "le", "ge", "lt", "gt", "equals", "lit", "leaf", "exists", "forall", "bad"]
NLEAVES = 12
LITS = [0, 1, 2, -3, "2", "0.5", 0.5, 2.0, "4/2", "7/3", 2**70, "1e3"]


def lit_value(i):
    v = LITS[i % len(LITS)]
    if isinstance(v, str) and "/" in v:
        return Fraction(v)
    return v


def lit_key(v):
    f = Fraction(v)
    return ("i", int(f)) if f.denominator == 1 else ("r", f)


class World:
    def __init__(self):
        from unified_planning.environment import Environment
        from unified_planning.model import Fluent, Object, Parameter, Variable

        self.env = env = Environment()
        tm, em = env.type_manager, env.expression_manager
        self.em = em
        T = tm.UserType("T")
        self.T = T
        self.var = Variable("v", T, env)
        fl = lambda n, t, **kw: em.FluentExp(Fluent(n, t, environment=env, **kw))
        o1, o2 = Object("o1", T, env), Object("o2", T, env)
        self.ufl = Fluent("u", tm.BoolType(), environment=env, k=T)
        self.leaves = [
            (fl("b0", tm.BoolType()), "bool", ("fl", "b0")),
            (fl("b1", tm.BoolType()), "bool", ("fl", "b1")),
            (fl("n0", tm.IntType()), "num", ("fl", "n0")),
            (fl("n1", tm.IntType(0, 9)), "num", ("fl", "n1")),
            (fl("r0", tm.RealType()), "num", ("fl", "r0")),
            (em.ObjectExp(o1), "obj", ("obj", "o1")),
            (em.ObjectExp(o2), "obj", ("obj", "o2")),
            (fl("of", T), "obj", ("fl", "of")),
            (em.ParameterExp(Parameter("p", T, env)), "obj", ("par", "p")),
            (em.ParameterExp(Parameter("q", tm.IntType(0, 3), env)), "num", ("par", "q")),
            (em.VariableExp(self.var), "obj", ("var", "v")),
            (em.FluentExp(self.ufl, (em.VariableExp(self.var),)), "bool", ("fl", "u", ("var", "v"))),
        ]


def run(ctx, case):
    from unified_planning.exceptions import UPTypeError

    w = World()
    em = w.em
    pool = []  # (node, type, key)
    by_key = {}
    by_id = {}
    record = {}
    repeats = 0
    norms = set()
    nconstructed = 0

    def pick(idx, typ):
        cands = [p for p in pool if p[1] == typ]
        if not cands:
            leaf = next(l for l in w.leaves if l[1] == typ)
            return leaf
        return cands[idx % len(cands)]

    def register(node, typ, key, step):
        nonlocal repeats
        if node.environment is not w.env:
            raise Violation("wrong-environment", f"step {step}: node {node} belongs to another environment", case)
        if key in by_key:
            repeats += 1
            if by_key[key] is not node:
                raise Violation("same-structure-different-node", f"step {step}: key {key} built twice gives distinct nodes {by_key[key]} / {node}", case)
        else:
            if node.node_id in by_id:
                raise Violation("distinct-structure-same-node-or-id", f"step {step}: key {key} yields node id {node.node_id} already used by key {by_id[node.node_id]}", case)
            by_key[key] = node
            by_id[node.node_id] = key
            record[key] = (node.node_type, tuple(node.args), _payload(node))
        pool.append((node, typ, key))

    for step, op in enumerate(case["ops"]):
        name = OPS[op[0] % len(OPS)]
        a, b, c = op[1], op[2], op[3]
        try:
            if name in ("and", "or"):
                n = c % 4
                args = [pick(a + j * (b + 1), "bool") for j in range(n)]
                node = (em.And if name == "and" else em.Or)([x[0] for x in args])
                if n == 0:
                    key, _ = ("b", name == "and"), norms.add(name + "0")
                elif n == 1:
                    key, _ = args[0][2], norms.add(name + "1")
                else:
                    key = (name,) + tuple(x[2] for x in args)
                typ = "bool"
            elif name == "not":
                x = pick(a, "bool")
                node = em.Not(x[0])
                if x[2][0] == "not":
                    key = x[2][1]
                    norms.add("notnot")
                else:
                    key = ("not", x[2])
                typ = "bool"
            elif name in ("implies", "iff"):
                x, y = pick(a, "bool"), pick(b, "bool")
                node = (em.Implies if name == "implies" else em.Iff)(x[0], y[0])
                key, typ = (name, x[2], y[2]), "bool"
            elif name in ("plus", "times"):
                n = c % 4
                args = [pick(a + j * (b + 1), "num") for j in range(n)]
                node = (em.Plus if name == "plus" else em.Times)([x[0] for x in args])
                if n == 0:
                    key, _ = ("i", 0 if name == "plus" else 1), norms.add(name + "0")
                elif n == 1:
                    key, _ = args[0][2], norms.add(name + "1")
                else:
                    key = (name,) + tuple(x[2] for x in args)
                typ = "num"
            elif name in ("minus", "div"):
                x, y = pick(a, "num"), pick(b, "num")
                yt = y[0].type
                if name == "div" and yt.lower_bound == 0 and yt.upper_bound == 0:
                    continue  # division by a constant-zero term is not a well-formed expression
                node = (em.Minus if name == "minus" else em.Div)(x[0], y[0])
                key, typ = (name, x[2], y[2]), "num"
            elif name in ("le", "ge", "lt", "gt"):
                x, y = pick(a, "num"), pick(b, "num")
                node = {"le": em.LE, "ge": em.GE, "lt": em.LT, "gt": em.GT}[name](x[0], y[0])
                if name in ("ge", "gt"):
                    norms.add(name)
                    key = ("le" if name == "ge" else "lt", y[2], x[2])
                else:
                    key = (name, x[2], y[2])
                typ = "bool"
            elif name == "equals":
                t = "num" if c % 2 == 0 else "obj"
                x, y = pick(a, t), pick(b, t)
                node = em.Equals(x[0], y[0])
                key, typ = ("equals", x[2], y[2]), "bool"
            elif name == "lit":
                v = lit_value(a)
                x = pick(b, "num")
                # literals go through auto_promote (documented polymorphism of the constructors)
                node = em.Plus(v, x[0])
                key, typ = ("plus", lit_key(v), x[2]), "num"
                norms.add("literal:" + type(v).__name__)
                # the promoted constant itself
                cn = node.arg(0)
                register(cn, "num", lit_key(v), step)
                if lit_key(v)[0] == "i" and not cn.is_int_constant():
                    raise Violation("literal-not-canonical", f"literal {v!r} promoted to {cn} ({cn.node_type})", case)
                if lit_key(v)[0] == "r" and not cn.is_real_constant():
                    raise Violation("literal-not-canonical", f"literal {v!r} promoted to {cn} ({cn.node_type})", case)
            elif name == "leaf":
                l = w.leaves[a % NLEAVES]
                # re-build the leaf through its constructor
                n0 = l[0]
                if n0.is_fluent_exp():
                    node = em.FluentExp(n0.fluent(), tuple(n0.args))
                elif n0.is_object_exp():
                    node = em.ObjectExp(n0.object())
                elif n0.is_parameter_exp():
                    node = em.ParameterExp(n0.parameter())
                else:
                    node = em.VariableExp(n0.variable())
                key, typ = l[2], l[1]
            elif name in ("exists", "forall"):
                x = pick(a, "bool")
                node = (em.Exists if name == "exists" else em.Forall)(x[0], w.var)
                key, typ = (name, ("v",), x[2]), "bool"
            else:  # ill-typed construction, attempted twice
                x, y = pick(a, "num"), pick(b, "bool")
                which = c % 3
                outcomes = []
                for attempt in range(2):
                    try:
                        if which == 0:
                            r = em.And(x[0], y[0])
                        elif which == 1:
                            r = em.Plus(x[0], y[0])
                        else:
                            r = em.LE(y[0], x[0])
                        outcomes.append(("returned", r))
                    except UPTypeError:
                        outcomes.append(("UPTypeError", None))
                if outcomes[0][0] != "UPTypeError" or outcomes[1][0] != "UPTypeError":
                    raise Violation(
                        "ill-typed-construction-not-rejected-consistently",
                        f"step {step}: building an ill-typed {['And', 'Plus', 'LE'][which]}({x[0]}, {y[0]}) twice gives {[o[0] for o in outcomes]}",
                        case,
                    )
                continue
        except UPTypeError as ex:
            raise Violation("well-typed-construction-rejected", f"step {step} ({name}): {ex!r}", case)
        nconstructed += 1
        register(node, typ, key, step)
        # immutability of everything built so far (sampled: the last 8 keys)
        for k in list(record)[-8:]:
            nd = by_key[k]
            if (nd.node_type, tuple(nd.args), _payload(nd)) != record[k]:
                raise Violation("node-changed-after-creation", f"step {step}: node for key {k} changed", case)
    ids = [n.node_id for n in by_key.values()]
    if len(set(ids)) != len(ids):
        raise Violation("duplicate-node-id", "two structurally different nodes share a node_id", case)
    for nm in norms:
        ctx.cls("norm:" + nm.split(":")[0])
    if nconstructed >= 20 and repeats >= 5 and len(norms) >= 3:
        ctx.nontriv(case["ops"])


def _payload(n):
    c = n._content
    return c.payload


def strategy(ctx):
    n = 60 if ctx.quick else 150
    op = st.tuples(st.integers(0, len(OPS) - 1), st.integers(0, 40), st.integers(0, 40), st.integers(0, 7))
    return st.fixed_dictionaries({"ops": st.one_of(st.lists(op, min_size=1, max_size=n), st.lists(op, min_size=25, max_size=n)).map(lambda l: [list(o) for o in l])})


def shard(ctx):
    ctx.run_hypothesis(strategy(ctx), lambda case: run(ctx, case), ctx.scale(1600, 40000))


def replay(ctx, case):
    run(ctx, case)
