"""C15 — expression type inference is sound and symmetric."""

from __future__ import annotations

import random
from fractions import Fraction
from itertools import product

from hypothesis import strategies as st

from harness.build import build
from harness.core import Abstain, Violation
from harness.refsim import Evaluator

PROPERTY = "C15"
TECHNIQUE = "property-based testing; exact rational evaluation at corner / sampled leaf values against the inferred interval; exhaustive operand-pair enumeration for equality symmetry"
RULE = (
    "Numeric expressions (depth <= 4; + - * and / by non-zero constants) over 2-4 int/real fluents and parameters that are "
    "bounded, half-bounded or unbounded, and int/rational constants of any magnitude (up to 10^400).  Every expression must "
    "be constructible; its value at all corner assignments of bounded leaves, at large magnitudes on unbounded sides and at "
    "sampled interior points (exact Fractions) must lie in the inferred [lower, upper]; int-typed results must be integral.  "
    "Symmetry: all ordered pairs from a pool of 18 typed operands (Boolean, int, real, time, objects / parameters / fluents of "
    "equal, parent-child, sibling and unrelated user types), each in a fresh environment: Equals(a,b) is accepted iff "
    "Equals(b,a) is.  Non-trivial = expression with a * or /, a half-bounded leaf or a constant outside +-2^53; pairs with "
    "different types; distinct by hash of the case."
)
SHARDS = {"quick": 8, "thorough": 16}

BIG = [2**53 + 1, -(2**53) - 1, 10**400, -(10**400), 3 * (2**60 + 1)]


@st.composite
def cases(draw):
    i = lambda lo, hi: draw(st.integers(lo, hi))
    nleaves = i(2, 4)
    fluents = []
    for k in range(nleaves):
        kind = "int" if i(0, 1) == 0 else "real"
        shape = i(0, 4)  # 0 bounded, 1 lower only, 2 upper only, 3 unbounded, 4 bounded straddling / point
        lo = i(-6, 6)
        hi = lo + i(0, 8)
        if kind == "real" and i(0, 2) == 0:
            lo_s, hi_s = str(Fraction(2 * lo - 1, 2)), str(Fraction(3 * hi + 1, 3))
        else:
            lo_s, hi_s = (lo, hi) if kind == "int" else (str(lo), str(hi))
        if shape == 1:
            t = [kind, lo_s, None]
        elif shape == 2:
            t = [kind, None, hi_s]
        elif shape == 3:
            t = [kind, None, None]
        else:
            t = [kind, lo_s, hi_s]
        fluents.append({"name": f"x{k}", "type": t, "params": [], "default": None})

    def const():
        m = i(0, 9)
        if m < 5:
            return ["i", i(-5, 7)]
        if m < 7:
            return ["r", str(Fraction(i(-9, 9), draw(st.sampled_from([2, 3, 7]))))]
        if m < 9:
            return ["i", draw(st.sampled_from(BIG))]
        return ["r", str(Fraction(draw(st.sampled_from(BIG)), draw(st.sampled_from([3, 7, 2**40 + 1]))))]

    def expr(d):
        m = i(0, 9)
        if d <= 0 or m < 3:
            if i(0, 2) > 0:
                return ["fl", f"x{i(0, nleaves - 1)}"]
            return const()
        if m < 5:
            return ["+"] + [expr(d - 1) for _ in range(i(2, 3))]
        if m < 7:
            return ["-", expr(d - 1), expr(d - 1)]
        if m < 9:
            return ["*"] + [expr(d - 1) for _ in range(i(2, 3))]
        c = const()
        if Fraction(c[1]) == 0:
            c = ["i", 3]
        return ["/", expr(d - 1), c]

    return {"sig": {"fluents": fluents}, "expr": expr(i(1, 4)), "iseed": i(0, 2**20)}


def feats(spec, fluents, acc):
    if isinstance(spec, list) and spec:
        if spec[0] in ("*", "/"):
            acc.add("muldiv")
        if spec[0] in ("i", "r") and abs(Fraction(spec[1])) > 2**53:
            acc.add("bigconst")
        if spec[0] == "fl":
            t = next(f["type"] for f in fluents if f["name"] == spec[1])
            if (t[1] is None) != (t[2] is None):
                acc.add("halfbounded")
        for s in spec[1:]:
            feats(s, fluents, acc)


def leaf_values(t, rng):
    lo = None if t.lower_bound is None else Fraction(t.lower_bound)
    hi = None if t.upper_bound is None else Fraction(t.upper_bound)
    vals = set()
    if lo is not None:
        vals |= {lo, lo + 1}
    if hi is not None:
        vals |= {hi, hi - 1}
    if lo is None:
        vals |= {Fraction(-(10**6)), Fraction(-(10**401))} | ({hi - 3} if hi is not None else {Fraction(-2)})
    if hi is None:
        vals |= {Fraction(10**6), Fraction(10**401)} | ({lo + 3} if lo is not None else {Fraction(2)})
    if lo is not None and hi is not None:
        vals.add((lo + hi) / 2)
        if t.is_int_type():
            vals.add(Fraction((lo + hi).numerator // (2 * (lo + hi).denominator)))
    if lo is None and hi is None:
        vals |= {Fraction(0), Fraction(1, 3)}
    if t.is_int_type():
        vals = {v for v in vals if v.denominator == 1}
    vals = sorted(v for v in vals if (lo is None or v >= lo) and (hi is None or v <= hi))
    return vals


def oracle_factory(ctx):
    def oracle(case):
        if "pair" in case:
            return check_pair(ctx, case)
        b = build(case["sig"])
        try:
            e = b.expr(case["expr"])
            t = e.type
        except Exception as ex:
            raise Violation(f"construction-exception:{type(ex).__name__}", f"building {case['expr']} raised {ex!r}", case)
        if not (t.is_int_type() or t.is_real_type()):
            raise Violation("non-numeric-type", f"{e} has type {t}", case)
        lo, hi = t.lower_bound, t.upper_bound
        E = Evaluator(b.problem)
        rng = random.Random(case["iseed"])
        names = [f["name"] for f in case["sig"]["fluents"]]
        doms = [leaf_values(b.fluents[n].type, rng) for n in names]
        total = 1
        for d in doms:
            total *= len(d)
        if total <= 400:
            combos = product(*doms)
        else:
            combos = [[d[0] for d in doms], [d[-1] for d in doms]] + [[d[rng.randrange(len(d))] for d in doms] for _ in range(200)]
        n = 0
        for combo in combos:
            state = {(nm, ()): v for nm, v in zip(names, combo)}
            try:
                v = E.ev(e, state, {}, {})[0]
            except Abstain:
                continue
            n += 1
            if (lo is not None and v < lo) or (hi is not None and v > hi):
                ops = "div" if _has(case["expr"], "/") else "times" if _has(case["expr"], "*") else "plusminus"
                raise Violation(
                    f"value-outside-inferred-type:{ops}",
                    f"{e} : {t} but evaluates to {v if abs(v) < 10**30 else float(v)} under { {k[0]: (str(x) if abs(x) < 10**30 else 'huge') for k, x in state.items()} }",
                    case,
                )
            if t.is_int_type() and v.denominator != 1:
                raise Violation("int-type-non-integral-value", f"{e} : {t} evaluates to {v}", case)
        fs = set()
        feats(case["expr"], case["sig"]["fluents"], fs)
        for f in fs:
            ctx.cls(f)
        if n and fs:
            ctx.nontriv(case["expr"])

    return oracle


def _has(spec, op):
    if isinstance(spec, list) and spec:
        return spec[0] == op or any(_has(s, op) for s in spec[1:])
    return False


NOPERANDS = 18


def operand(env, i):
    """typed operand pool (built in the given environment)."""
    from unified_planning.model import Fluent, Object, Parameter, Variable, StartTiming

    tm, em = env.type_manager, env.expression_manager
    A = tm.UserType("A")
    B = tm.UserType("B", A)
    C = tm.UserType("C", A)
    D = tm.UserType("D")
    table = [
        lambda: em.TRUE(),
        lambda: em.FluentExp(Fluent("bf", tm.BoolType(), environment=env)),
        lambda: em.Int(5),
        lambda: em.Real(Fraction(1, 2)),
        lambda: em.FluentExp(Fluent("nf", tm.IntType(0, 9), environment=env)),
        lambda: em.FluentExp(Fluent("rf", tm.RealType(), environment=env)),
        lambda: em.TimingExp(StartTiming()),
        lambda: em.ObjectExp(Object("oa", A, env)),
        lambda: em.ObjectExp(Object("ob", B, env)),
        lambda: em.ObjectExp(Object("oc", C, env)),
        lambda: em.ObjectExp(Object("od", D, env)),
        lambda: em.ParameterExp(Parameter("pa", A, env)),
        lambda: em.ParameterExp(Parameter("pb", B, env)),
        lambda: em.VariableExp(Variable("vc", C, env)),
        lambda: em.FluentExp(Fluent("fa", A, environment=env)),
        lambda: em.FluentExp(Fluent("fd", D, environment=env)),
        lambda: em.ParameterExp(Parameter("pi", tm.IntType(0, 3), env)),
        lambda: em.Plus(em.Int(1), em.FluentExp(Fluent("nf2", tm.IntType(), environment=env))),
    ]
    return table[i]()


def check_pair(ctx, case):
    from unified_planning.environment import Environment
    from unified_planning.exceptions import UPTypeError

    i, j = case["pair"]

    def accepted(x, y):
        env = Environment()
        a, b = operand(env, x), operand(env, y)
        try:
            env.expression_manager.Equals(a, b)
            return True, f"{a}:{a.type}", f"{b}:{b.type}"
        except UPTypeError:
            return False, f"{a}:{a.type}", f"{b}:{b.type}"
        except Exception as ex:
            raise Violation(f"equals-exception:{type(ex).__name__}", f"Equals({a}, {b}) raised {ex!r}", case)

    ab, sa, sb = accepted(i, j)
    ba, _, _ = accepted(j, i)
    if ab != ba:
        raise Violation(
            "equals-asymmetric",
            f"Equals({sa}, {sb}) is {'accepted' if ab else 'rejected'} but Equals({sb}, {sa}) is {'accepted' if ba else 'rejected'}",
            case,
        )
    ctx.cls("pair-accepted" if ab else "pair-rejected")
    if i != j:
        ctx.nontriv(case)


def shard(ctx):
    orc = oracle_factory(ctx)
    pairs = [{"pair": [i, j]} for i in range(NOPERANDS) for j in range(NOPERANDS) if i <= j]
    ctx.run_cases(pairs[ctx.shard :: ctx.nshards], orc)
    ctx.extra["operand_pairs_enumerated"] = len(pairs[ctx.shard :: ctx.nshards])
    ctx.run_hypothesis(cases(), orc, ctx.scale(4000, 120000))


def replay(ctx, case):
    oracle_factory(ctx)(case)
