"""C23 — the model only stores type-correct values."""

from __future__ import annotations

from fractions import Fraction

from hypothesis import strategies as st

from harness.core import Abstain, Violation

PROPERTY = "C23"
TECHNIQUE = "property-based testing of model-building calls against a harness-side type-compatibility classification; state snapshot before/after rejected calls"
RULE = (
    "A case is a list of <= 12 model-building calls on one fresh problem: add_fluent(default_initial_value=v), "
    "Problem(initial_defaults={type: v}) + add_fluent, set_initial_value, add_effect / add_increase_effect / "
    "add_decrease_effect on an action, add_timed_effect on the problem, ActionInstance(action, params); targets of type "
    "Boolean, int[0,5], int, real[0,5], half-bounded int[0,inf) / int(-inf,5] / real[1/2,inf), user types A, B<A, C and D<E (unknown to the problem until used); values of every type (Booleans, ints in/out of bounds, rationals, "
    "objects of the same / sub / super / unrelated type, fluent expressions, parameters, compound expressions).  Clearly "
    "compatible calls must succeed, clearly incompatible or non-constant-initial-value calls must raise and leave the model "
    "(fluents, defaults, initial values, effects, user types, names) unchanged; partially overlapping numeric types are abstained.  After every accepted call all stored initial values and "
    "defaults are re-checked.  Non-trivial = call with a clearly incompatible or non-constant value; distinct by (call kind, "
    "target type, value)."
)
SHARDS = {"quick": 8, "thorough": 16}

TARGET_TYPES = ["bool", "int05", "int", "real05", "A", "B", "C", "int0up", "intdown5", "realhalfup", "D"]
BOUNDS = {"int05": (0, 5), "real05": (0, 5), "int0up": (0, None), "intdown5": (None, 5), "realhalfup": (Fraction(1, 2), None), "int": (None, None)}
NVALUES = 21
KINDS = ["default", "type_default", "init", "effect", "inc", "dec", "timed", "instance"]


class W:
    def __init__(self, type_defaults):
        from unified_planning.environment import Environment
        from unified_planning.model import Fluent, InstantaneousAction, Object, Parameter, Problem

        self.env = env = Environment()
        self.tm, self.em = env.type_manager, env.expression_manager
        tm, em = self.tm, self.em
        self.A = tm.UserType("A")
        self.B = tm.UserType("B", self.A)
        self.C = tm.UserType("C")
        # D (child of E) has no object: the problem does not know these two types until a fluent of type D is added
        self.E = tm.UserType("E")
        self.D = tm.UserType("D", self.E)
        self.types = {
            "bool": tm.BoolType(), "int05": tm.IntType(0, 5), "int": tm.IntType(), "real05": tm.RealType(Fraction(0), Fraction(5)), "A": self.A, "B": self.B, "C": self.C,
            "int0up": tm.IntType(0, None), "intdown5": tm.IntType(None, 5), "realhalfup": tm.RealType(Fraction(1, 2), None), "D": self.D,
        }
        self.type_default_error = None
        tdefs = {}
        for tname, vi in type_defaults:
            tdefs[self.types[tname]] = ("raw", vi)
        self.pending_tdefs = type_defaults
        self.problem = None
        self.objs = {"a": Object("a", self.A, env), "b": Object("b", self.B, env), "c": Object("c", self.C, env)}
        # helper fluents used as non-constant values (not added to the problem under test on purpose: values only)
        self.hf = {
            "hb": Fluent("hb", tm.BoolType(), environment=env),
            "hi": Fluent("hi", tm.IntType(0, 5), environment=env),
            "hi2": Fluent("hi2", tm.IntType(2, 3), environment=env),
            "hbig": Fluent("hbig", tm.IntType(10, 20), environment=env),
            "hr": Fluent("hr", tm.RealType(Fraction(0), Fraction(5)), environment=env),
            "ha": Fluent("ha", self.A, environment=env),
            "hbb": Fluent("hbb", self.B, environment=env),
            "hc": Fluent("hc", self.C, environment=env),
            "hov": Fluent("hov", tm.IntType(3, 9), environment=env),
        }

    def value(self, i):
        """(python-or-fnode value, description (base, info), is_constant)"""
        em = self.em
        tbl = [
            (True, ("bool",), True),
            (False, ("bool",), True),
            (3, ("num", Fraction(3), Fraction(3), True), True),
            (-1, ("num", Fraction(-1), Fraction(-1), True), True),
            (7, ("num", Fraction(7), Fraction(7), True), True),
            (Fraction(5, 2), ("num", Fraction(5, 2), Fraction(5, 2), False), True),
            (Fraction(4, 1), ("num", Fraction(4), Fraction(4), True), True),
            (self.objs["a"], ("obj", "A"), True),
            (self.objs["b"], ("obj", "B"), True),
            (self.objs["c"], ("obj", "C"), True),
            (em.FluentExp(self.hf["hb"]), ("bool",), False),
            (em.FluentExp(self.hf["hi"]), ("num", Fraction(0), Fraction(5), True), False),
            (em.FluentExp(self.hf["hi2"]), ("num", Fraction(2), Fraction(3), True), False),
            (em.FluentExp(self.hf["hbig"]), ("num", Fraction(10), Fraction(20), True), False),
            (em.FluentExp(self.hf["hr"]), ("num", Fraction(0), Fraction(5), False), False),
            (em.FluentExp(self.hf["ha"]), ("obj", "A"), False),
            (em.FluentExp(self.hf["hbb"]), ("obj", "B"), False),
            (em.FluentExp(self.hf["hc"]), ("obj", "C"), False),
            (em.Plus(em.FluentExp(self.hf["hi2"]), 1), ("num", Fraction(3), Fraction(4), True), False),
            (em.Not(em.FluentExp(self.hf["hb"])), ("bool",), False),
            (em.FluentExp(self.hf["hov"]), ("num", Fraction(3), Fraction(9), True), False),
        ]
        return tbl[i % len(tbl)]


def classify(target, vdesc):
    """'ok' | 'bad' | 'partial' for storing a value described by vdesc into a target type name."""
    base = vdesc[0]
    if target == "bool":
        return "ok" if base == "bool" else "bad"
    if target == "D":
        return "bad"  # no generated value has type D or a subtype of it
    if target in ("A", "B", "C"):
        if base != "obj":
            return "bad"
        vt = vdesc[1]
        if vt == target or (target == "A" and vt == "B"):
            return "ok"
        return "bad"  # unrelated or super type
    if base != "num":
        return "bad"
    _, lo, hi, integral = vdesc
    if target.startswith("int") and not integral:
        return "bad"
    tlo, thi = BOUNDS[target]
    if (tlo is None or lo >= tlo) and (thi is None or hi <= thi):
        return "ok"
    if (tlo is not None and hi < tlo) or (thi is not None and lo > thi):
        return "bad"
    return "partial"


def snapshot(w, action):
    p = w.problem
    return (
        tuple(sorted((f.name, str(f.type)) for f in p.fluents)),
        tuple(sorted(t.name for t in p.user_types)),
        tuple(n for n in ("A", "B", "C", "D", "E") if p.has_name(n)),
        tuple(sorted((f.name, str(v)) for f, v in p.fluents_defaults.items())),
        tuple(sorted((str(k), str(v)) for k, v in p.explicit_initial_values.items())),
        tuple(map(repr, action.effects)),
        tuple(sorted((str(t), tuple(map(repr, effs))) for t, effs in p.timed_effects.items())),
    )


def run(ctx, case):
    from unified_planning.exceptions import UPTypeError
    from unified_planning.model import Fluent, GlobalStartTiming, InstantaneousAction, Problem
    from unified_planning.plans import ActionInstance

    w = W(case["type_defaults"])
    em = w.em
    # --- per-type defaults given to the constructor
    tdefs = {}
    tdef_class = {}
    for tname, vi in case["type_defaults"]:
        v, desc, const = w.value(vi)
        tdefs[w.types[tname]] = v
        tdef_class[tname] = ("ok" if const else "bad") if classify(tname, desc) == "ok" else classify(tname, desc), v, const
    try:
        w.problem = Problem("p", w.env, initial_defaults=tdefs)
        ctor_rejected = False
    except Exception:
        # a constructor that validates its defaults is fine; continue without them
        ctor_rejected = True
        w.problem = Problem("p", w.env)
        tdef_class = {}
    p = w.problem
    for o in w.objs.values():
        p.add_object(o)
    action = InstantaneousAction("act", _env=w.env, pa=w.A, pi=w.tm.IntType(0, 5), pb=w.tm.BoolType())
    fluents = {}
    nf = 0

    def invariant(step):
        for f, v in p.fluents_defaults.items():
            tname = next((k for k, t in w.types.items() if t == f.type), None)
            if not v.is_constant():
                raise Violation("stored-default-not-constant", f"after call {step}: default of {f.name} is {v}", case)
            if tname and not f.type.is_compatible(v.type) or (tname == "bool" and not v.is_bool_constant()):
                raise Violation("stored-default-ill-typed", f"after call {step}: default of {f.name} : {f.type} is {v}", case)
        for fe, v in p.explicit_initial_values.items():
            if not v.is_constant():
                raise Violation("stored-initial-value-not-constant", f"after call {step}: {fe} := {v}", case)
            if not fe.type.is_compatible(v.type):
                raise Violation("stored-initial-value-ill-typed", f"after call {step}: {fe} : {fe.type} := {v}", case)
        try:
            ivs = p.initial_values
        except Exception as ex:
            raise Violation(f"initial_values-exception:{type(ex).__name__}", f"after call {step}: {ex!r}", case)
        for fe, v in ivs.items():
            if not v.is_constant() or not fe.type.is_compatible(v.type) or (fe.type.is_bool_type() != v.type.is_bool_type()):
                raise Violation("initial_values-returns-ill-typed", f"after call {step}: initial_values gives {fe} : {fe.type} = {v}", case)

    def get_fluent(tname):
        nonlocal nf
        if tname not in fluents:
            f = Fluent(f"f_{tname}", w.types[tname], environment=w.env)
            # added without an explicit default: a per-type default (if any) applies
            p.add_fluent(f)
            fluents[tname] = f
        return fluents[tname]

    for step, (kind_i, target_i, value_i) in enumerate(case["calls"]):
        kind = KINDS[kind_i % len(KINDS)]
        tname = TARGET_TYPES[target_i % len(TARGET_TYPES)]
        v, desc, const = w.value(value_i)
        cls = classify(tname, desc)
        before = None
        label = f"{kind}({tname} <- {v})"
        try:
            if kind == "default":
                nf += 1
                before = snapshot(w, action)
                expected = cls if const else "bad"
                call = lambda: p.add_fluent(f"g{nf}", w.types[tname], default_initial_value=v)
            elif kind == "type_default":
                # the per-type default given at construction is stored when a fluent of that type is added
                if tname not in tdef_class:
                    continue
                c0, v0, const0 = tdef_class[tname]
                v, const = v0, const0
                label = f"add_fluent of type {tname} with per-type default {v0}"
                nf += 1
                before = snapshot(w, action)
                expected = c0 if const0 else "bad"
                call = lambda: p.add_fluent(f"g{nf}", w.types[tname])
            elif kind == "init":
                f = get_fluent(tname)
                before = snapshot(w, action)
                expected = cls if const else "bad"
                call = lambda: p.set_initial_value(em.FluentExp(f), v)
            elif kind in ("effect", "inc", "dec"):
                if kind != "effect" and tname not in BOUNDS:
                    continue
                f = get_fluent(tname)
                before = snapshot(w, action)
                expected = cls
                m = {"effect": action.add_effect, "inc": action.add_increase_effect, "dec": action.add_decrease_effect}[kind]
                call = lambda: m(f, v)
            elif kind == "timed":
                f = get_fluent(tname)
                before = snapshot(w, action)
                expected = cls
                call = lambda: p.add_timed_effect(GlobalStartTiming(3 + step), f, v)
            else:  # ActionInstance: parameter types A, int[0,5], bool
                which = target_i % 3
                ptype = ["A", "int05", "bool"][which]
                good = {"A": w.objs["a"], "int05": 2, "bool": True}
                params = [good["A"], good["int05"], good["bool"]]
                params[which] = v
                expected = classify(ptype, desc) if const else "bad"
                label = f"ActionInstance(act, {params})"
                before = snapshot(w, action)
                call = lambda: ActionInstance(action, tuple(params))
        except Violation:
            raise
        from unified_planning.exceptions import UPConflictingEffectsException

        try:
            call()
            raised = None
        except UPConflictingEffectsException:
            continue  # a conflicting effect is C24's subject
        except AssertionError as ex:
            raised = ex
        except Exception as ex:
            raised = ex
        ctx.cls(f"{kind}:{expected}")
        if expected == "partial":
            ctx.abstain("partial-overlap-type")
            if raised is None:
                invariant_safe = True
            continue
        if expected == "ok" and raised is not None:
            raise Violation(f"compatible-value-rejected:{kind}", f"call {step} {label} raised {raised!r}", case)
        if expected == "bad":
            ctx.nontriv([kind, tname, value_i % NVALUES])
            if raised is None:
                raise Violation(f"incompatible-value-accepted:{kind}", f"call {step} {label} was accepted", case)
            after = snapshot(w, action)
            if after != before:
                raise Violation(f"rejected-call-changed-model:{kind}", f"call {step} {label} raised {raised!r} but the model changed", case)
        if raised is None:
            invariant(step)


def strategy():
    call = st.tuples(st.integers(0, len(KINDS) - 1), st.integers(0, len(TARGET_TYPES) - 1), st.integers(0, NVALUES - 1))
    tdef = st.tuples(st.sampled_from(TARGET_TYPES), st.integers(0, NVALUES - 1))
    return st.fixed_dictionaries(
        {
            "type_defaults": st.lists(tdef, max_size=2, unique_by=lambda t: t[0]).map(lambda l: [list(x) for x in l]),
            "calls": st.lists(call, min_size=1, max_size=12).map(lambda l: [list(x) for x in l]),
        }
    )


def shard(ctx):
    ctx.run_hypothesis(strategy(), lambda case: run(ctx, case), ctx.scale(4000, 100000))


def replay(ctx, case):
    run(ctx, case)
