"""C20 — protobuf round trip is lossless."""

from __future__ import annotations

from fractions import Fraction

from hypothesis import strategies as st

from harness import gen
from harness.build import build, frac
from harness.core import Abstain, Violation, case_hash

PROPERTY = "C20"
TECHNIQUE = "property-based round trip (ProtobufWriter -> ProtobufReader) with UP equality and an independent structural digest as oracles"
RULE = (
    "Generated objects of nine classes: classical/numeric problems (C01 grammar without interpreted functions, with a metric, "
    "per-type defaults, half-bounded int/real fluent types, large and negative rationals), temporal problems (durative actions, "
    "every timing kind, open/closed intervals, timed effects and goals, epsilon), hierarchical problems (tasks, methods, ordered "
    "and unordered subtasks, task-network variables), scheduling problems (activities, resources, optional activities, "
    "constraints), sequential and time-triggered plans over generated problems, compilation results of real compilers, "
    "validation results and plan-generation results with every status / log level / metric map.  Oracle: if the writer accepts "
    "the object, the reader must read the message back (same environment) to an object equal to the original under UP "
    "equality AND with an identical harness-side structural digest (types with exact bounds, fluents and defaults, explicit "
    "initial values, actions with durations / conditions / effects, goals, timed items, metrics, task networks, activities); "
    "problems must have the same kind; reading into a fresh environment must give the same digest.  Non-trivial = object "
    "containing a half-bounded numeric type, a non-integer or large (>= 2^31) rational, an open interval, a global-end or "
    "delayed timing, or of a non-classical class (HTN, scheduling, plan, result); distinct by canonical case."
)
SHARDS = {"quick": 8, "thorough": 16}
ASSUMPTIONS = ["str()/repr() of UP model objects prints every semantically relevant field (used for the structural digest)"]

PROF = gen.Profile(ifuns=False, big_consts=True, traj=True)
TPROF = gen.Profile(
    ifuns=False, bounded=True, invariants=False, undefined=True, max_fluents=4, max_objects=3, max_arity=1,
    quantifiers=True, nested_fluent_args=False, forall_effects=True, division=True, big_consts=True, int_params=True,
)

BIG = [2**31, -(2**31) - 1, 2**53 + 1, 2**62 + 3, -(2**63), 2**63 - 1]
BIGFR = ["1/3", "-7/3", "123456789123/1000", "-1/1024", "9007199254740993/2", "22/7"]


@st.composite
def cases(draw):
    k = draw(st.sampled_from(["problem", "problem", "temporal", "temporal", "htn", "sched", "plan-seq", "plan-tt", "valres", "pgres", "compres"]))
    case = {"kind": k}
    if k in ("problem", "plan-seq", "compres", "htn", "valres", "pgres"):
        g = gen.Gen(draw, PROF)
        p = g.problem()
        _decorate(g, p)
        case["problem"] = p
        if k == "plan-seq" or k == "pgres":
            case["plan"] = [[g.i(0, 20), g.i(0, 50)] for _ in range(g.i(0, 4))]
        if k == "compres":
            case["compiler"] = g.pick(["grounder", "grounder", "quantifiers", "disjunctive", "negative"])
        if k == "htn":
            case["htn"] = _gen_htn(g, p)
        if k in ("valres", "pgres"):
            case["res"] = _gen_result(g, k)
    elif k in ("temporal", "plan-tt"):
        g = gen.TGen(draw, TPROF)
        p = g.temporal_problem()
        _decorate(g, p)
        if g.b(0.4):
            p["epsilon"] = g.pick(["1/100", "1/3", 1, "1/1000000007"])
        case["problem"] = p
        if g.b(0.3):
            case["discrete_time"] = True
        if g.b(0.3):
            case["self_overlapping"] = True
        if k == "plan-tt":
            case["plan"] = [[g.i(0, 20), g.i(0, 50), g.pick([0, 1, "1/2", "7/3", 2, "123/100"]), g.pick([1, 2, "1/2", "3/2", "1/3", 5])] for _ in range(g.i(0, 4))]
    elif k == "sched":
        g = gen.Gen(draw, PROF)
        g.gen_types()
        case["sched"] = _gen_sched(g)
    return case


def _decorate(g, p):
    """type defaults, big constants in initial values, a metric"""
    top = {"params": [], "vars": []}
    # big / fractional initial values for unbounded numeric 0-ary fluents
    for f in p["fluents"]:
        t = f["type"]
        if t != "bool" and t[0] in ("int", "real") and t[1] is None and t[2] is None and not f["params"] and g.b(0.3):
            if t[0] == "int":
                v = ["i", g.pick(BIG)]
            else:
                v = ["r", g.pick(BIGFR)] if g.b(0.7) else ["i", g.pick(BIG)]
            p["init"] = [e for e in p["init"] if e[0] != ["fl", f["name"]]] + [[["fl", f["name"]], v]]
    mk = g.pick(["none", "costs", "length", "minfinal", "maxfinal", "oversub"])
    metric = None
    inst = [a for a in p["actions"] if "dur" not in a]
    if mk == "costs" and inst:
        costs = []
        for a in inst:
            sc = {"params": [(n, t) for n, t in a["params"]], "vars": []}
            c = ["i", g.i(0, 4)] if g.b(0.5) else g.num_expr(sc, g.i(0, 2))
            costs.append([a["name"], c])
        default = None
        if g.b(0.4) or len(inst) != len(p["actions"]):
            default = ["i", g.i(0, 3)]
            costs = costs[: g.i(0, len(costs))]
        metric = {"kind": "costs", "costs": costs, "default": default}
    elif mk == "length":
        metric = {"kind": "length"} if len(inst) == len(p["actions"]) else {"kind": "makespan"}
    elif mk in ("minfinal", "maxfinal"):
        metric = {"kind": mk, "e": g.num_expr(top, g.i(0, 2))}
    elif mk == "oversub":
        goals, seen = [], []
        for _ in range(g.i(1, 3)):
            e = g.bool_expr(top, g.i(0, 2))
            if e in seen:
                continue
            seen.append(e)
            goals.append([e, g.pick([1, 2, -1, 5, "1/2", "-3/2", 0, 2**40])])
        metric = {"kind": "oversub", "goals": goals}
    p["metric"] = metric


def _gen_htn(g, p):
    """tasks / methods / initial task network on top of the (instantaneous) problem p"""
    tasks = []
    for k in range(g.i(1, 2)):
        params = [[f"tp{j}", ["user", g.pick(g.types)[0]]] for j in range(g.i(0, 2))]
        tasks.append({"name": f"t{k}", "params": params})
    methods = []
    for k in range(g.i(1, 3)):
        t = g.pick(tasks)
        # method parameters: the task's parameters (same types) plus extras
        mparams = [[f"mp{j}", pt] for j, (_, pt) in enumerate(t["params"])]
        for j in range(g.i(0, 1)):
            mparams.append([f"mx{j}", ["user", g.pick(g.types)[0]]])
        subtasks = []
        for j in range(g.i(0, 3)):
            subtasks.append(_gen_subtask(g, p, tasks, mparams, f"s{j}"))
        order = _gen_order(g, len(subtasks))
        sc = {"params": [(n, t_) for n, t_ in mparams], "vars": []}
        pre = [g.bool_expr(sc, g.i(0, 1)) for _ in range(g.i(0, 2))]
        methods.append({"name": f"m{k}", "params": mparams, "task": t["name"], "task_args": [n for n, _ in mparams[: len(t["params"])]], "subtasks": subtasks, "order": order, "pre": pre})
    # initial task network
    tnvars = [[f"v{j}", ["user", g.pick(g.types)[0]]] for j in range(g.i(0, 2))]
    subtasks = [_gen_subtask(g, p, tasks, tnvars, f"i{j}", objects_ok=True) for j in range(g.i(1, 3))]
    return {"tasks": tasks, "methods": methods, "tn": {"vars": tnvars, "subtasks": subtasks, "order": _gen_order(g, len(subtasks))}}


def _gen_order(g, n):
    if n < 2:
        return []
    m = g.i(0, 2)
    if m == 0:
        return []
    if m == 1:
        return [[i, i + 1] for i in range(n - 1)]
    return [[0, n - 1]]


def _gen_subtask(g, p, tasks, params, ident, objects_ok=True):
    """subtask over a task or an instantaneous action; arguments are parameters of matching type or objects"""
    cands = [("task", t["name"], t["params"]) for t in tasks] + [("action", a["name"], a["params"]) for a in p["actions"] if "dur" not in a and all(pt != "bool" and pt[0] == "user" for _, pt in a["params"])]
    kind, name, ps = g.pick(cands)
    args = []
    for _, pt in ps:
        compat = [n for n, t in params if t[0] == "user" and t[1] in g.subtypes(pt[1])]
        objs = g.objs_of(pt[1])
        if compat and (g.b(0.6) or not objs):
            args.append(["par", g.pick(compat)])
        elif objs:
            args.append(["obj", g.pick(objs)])
        else:
            return {"kind": "none"}
    return {"kind": kind, "name": name, "args": args, "id": ident}


def _gen_result(g, k):
    msgs = [[g.pick(["INFO", "WARNING", "ERROR", "DEBUG"]), g.pick(["", "a message", "multi\nline", "ünïcode ✓", "x" * 50])] for _ in range(g.i(0, 3))]
    metrics = {g.pick(["time", "nodes", "", "k y"]): g.pick(["1.5", "", "10", "abc"]) for _ in range(g.i(0, 2))}
    if k == "valres":
        status = g.pick(["VALID", "INVALID", "UNKNOWN"])
    else:
        # (the writer does not accept a result without a plan, so plan-carrying statuses are favoured)
        status = g.pick(["SOLVED_SATISFICING", "SOLVED_OPTIMALLY", "INTERMEDIATE"]) if g.b(0.75) else g.pick(["UNSOLVABLE_PROVEN", "UNSOLVABLE_INCOMPLETELY", "TIMEOUT", "MEMOUT", "INTERNAL_ERROR", "UNSUPPORTED_PROBLEM"])
    return {"status": status, "logs": msgs, "metrics": metrics, "engine": g.pick(["eng", "", "my engine 1.0"]), "none_logs": g.b(0.2), "none_metrics": g.b(0.2)}


def _gen_sched(g):
    """a small scheduling problem spec"""
    res = []
    for k in range(g.i(0, 2)):
        res.append({"name": f"r{k}", "cap": g.i(1, 4)})
    fl = []
    for k in range(g.i(0, 2)):
        fl.append({"name": f"sf{k}", "type": g.pick(["bool", ["int", 0, 5], ["int", None, None], ["real", None, None], ["real", "0", None], ["int", None, 7]])})
    vars_ = [[f"sv{k}", g.pick([["int", 0, 3], ["int", 1, 10], ["user", g.types[0][0]]])] for k in range(g.i(0, 2))]
    acts = []
    for k in range(g.i(1, 3)):
        a = {"name": f"act{k}", "optional": g.b(0.3), "dur": g.pick([[2, 2], [1, 3], [3, 3], [0, 5]]), "params": [], "uses": [], "effs": [], "conds": [], "release": None, "deadline": None}
        for j in range(g.i(0, 1)):
            a["params"].append([f"ap{j}", g.pick([["int", 0, 3], ["user", g.types[0][0]]])])
        for r in res:
            if g.b(0.5):
                a["uses"].append([r["name"], g.i(1, r["cap"])])
        for f in fl:
            if g.b(0.3):
                t = g.pick([["s", 0], ["e", 0], ["s", 1], ["e", 1]])
                if f["type"] == "bool":
                    a["effs"].append({"t": t, "fl": f["name"], "kind": "assign", "val": ["b", g.b()]})
                else:
                    a["effs"].append({"t": t, "fl": f["name"], "kind": g.pick(["assign", "inc", "dec"]), "val": ["i", g.i(0, 3)]})
            if g.b(0.3) and f["type"] == "bool":
                a["conds"].append({"iv": g.pick([[["s", 0], ["s", 0], False, False], [["s", 0], ["e", 0], False, False], [["s", 0], ["e", 0], True, False], [["e", 0], ["e", 0], False, False]]), "fl": f["name"]})
        if g.b(0.3):
            a["release"] = g.i(0, 5)
        if g.b(0.3):
            a["deadline"] = g.i(5, 20)
        acts.append(a)
    cons = []
    for _ in range(g.i(0, 2)):
        if len(acts) >= 2:
            i, j = g.i(0, len(acts) - 1), g.i(0, len(acts) - 1)
            if i != j:
                cons.append(["before", acts[i]["name"], acts[j]["name"], g.pick([0, 1, 2])])
    metric = g.pick([None, "makespan"])
    return {"resources": res, "fluents": fl, "vars": vars_, "activities": acts, "constraints": cons, "metric": metric, "types": [list(t) for t in g.types], "objects": [list(o) for o in g.objects]}


# ------------------------------------------------------------------ digests


def tdig(t):
    """exact digest of a type"""
    if t.is_bool_type():
        return "bool"
    if t.is_int_type() or t.is_real_type():
        return ("int" if t.is_int_type() else "real", None if t.lower_bound is None else str(Fraction(t.lower_bound)), None if t.upper_bound is None else str(Fraction(t.upper_bound)))
    if t.is_user_type():
        return ("user", t.name, None if t.father is None else t.father.name)
    return str(t)


def edig(e):
    """exact digest of an FNode (structure, constants as exact rationals with their node kind)"""
    if e is None:
        return None
    if isinstance(e, (bool, int, Fraction)):
        return ("py", str(e))
    if not hasattr(e, "node_type"):  # Parameter / Variable objects (task parameters)
        return ("P", e.name, tdig(e.type))
    if e.is_int_constant():
        return ("i", e.constant_value())
    if e.is_real_constant():
        return ("r", str(e.constant_value()))
    if e.is_bool_constant():
        return ("b", e.constant_value())
    if e.is_object_exp():
        return ("o", e.object().name, tdig(e.object().type))
    if e.is_parameter_exp():
        return ("p", e.parameter().name, tdig(e.parameter().type))
    if e.is_variable_exp():
        return ("v", e.variable().name, tdig(e.variable().type))
    if e.is_fluent_exp():
        return ("f", e.fluent().name, tuple(edig(a) for a in e.args))
    if e.is_timing_exp():
        return ("t", timdig(e.timing()))
    if e.is_present_exp():
        return ("present", str(e.presence()))
    head = [str(e.node_type)]
    if e.is_exists() or e.is_forall():
        head.append(tuple((v.name, tdig(v.type)) for v in e.variables()))
    return (tuple(head), tuple(edig(a) for a in e.args))


def timdig(t):
    return (str(t.timepoint.kind), t.timepoint.container, str(Fraction(t.delay)))


def ivdig(iv):
    return (timdig(iv.lower), timdig(iv.upper), iv.is_left_open(), iv.is_right_open())


def effdig(e):
    return (str(e.kind), edig(e.fluent), edig(e.value), edig(e.condition), tuple((v.name, tdig(v.type)) for v in e.forall))


def actdig(a):
    from unified_planning.model import DurativeAction, InstantaneousAction

    ps = tuple((p.name, tdig(p.type)) for p in a.parameters)
    if isinstance(a, InstantaneousAction):
        return ("inst", a.name, ps, tuple(edig(c) for c in a.preconditions), tuple(effdig(e) for e in a.effects))
    if isinstance(a, DurativeAction):
        d = a.duration
        return (
            "dur", a.name, ps, (edig(d.lower), edig(d.upper), d.is_left_open(), d.is_right_open()),
            tuple(sorted((ivdig(iv), tuple(sorted(map(repr, (edig(c) for c in cs))))) for iv, cs in a.conditions.items())),
            tuple(sorted((timdig(t), tuple(effdig(e) for e in es)) for t, es in a.effects.items())),
        )
    return ("other", str(a))


def metricdig(m):
    if m.is_minimize_action_costs():
        return ("costs", tuple(sorted((a.name, repr(edig(c))) for a, c in m.costs.items())), edig(m.default))
    if m.is_minimize_expression_on_final_state() or m.is_maximize_expression_on_final_state():
        return (type(m).__name__, edig(m.expression))
    if m.is_oversubscription():
        return ("oversub", tuple(sorted((repr(edig(g)), str(Fraction(w)), type(w).__name__ == "int") for g, w in m.goals.items())))
    return (type(m).__name__,)


def subtaskdig(s):
    return (s.identifier, s.task.name, tuple(edig(p) for p in s.parameters))


def problem_digest(p):
    from unified_planning.model.htn import HierarchicalProblem
    from unified_planning.model.scheduling import SchedulingProblem

    d = {
        "class": type(p).__name__,
        "name": p.name,
        "types": [tdig(t) for t in p.user_types],
        "objects": sorted((o.name, tdig(o.type)) for o in p.all_objects),
        "fluents": [(f.name, tdig(f.type), tuple((q.name, tdig(q.type)) for q in f.signature)) for f in p.fluents],
        # the semantic initial state (defaults applied): UP equality is defined on it too, and the
        # writer is free to write a default as an explicit value
        "initial": sorted((repr(edig(k)), repr(edig(v))) for k, v in p.initial_values.items()),
        "metrics": [metricdig(m) for m in p.quality_metrics],
        "epsilon": None if p.epsilon is None else str(p.epsilon),
        "discrete_time": p.discrete_time,
        "self_overlapping": p.self_overlapping,
    }
    if isinstance(p, SchedulingProblem):
        d["vars"] = sorted((v.name, tdig(v.type)) for v in p.base_variables)
        d["base_conditions"] = sorted(repr((ivdig(t), edig(c))) for t, c in p.base_conditions)
        d["base_effects"] = sorted(repr((timdig(t), effdig(e))) for t, e in p.base_effects)
        d["base_constraints"] = sorted(repr((edig(c), sorted(map(str, sc)))) for c, sc in p.base_scoped_constraints)
        acts = []
        for a in p.activities:
            du = a.duration
            acts.append((
                a.name, a.optional, tuple((q.name, tdig(q.type)) for q in a.parameters),
                (edig(du.lower), edig(du.upper), du.is_left_open(), du.is_right_open()),
                tuple(sorted(repr((ivdig(iv), sorted(repr(edig(c)) for c in cs))) for iv, cs in a.conditions.items())),
                tuple(sorted(repr((timdig(t), [effdig(e) for e in es])) for t, es in a.effects.items())),
                tuple(sorted(repr(edig(c)) for c, _ in a.scoped_constraints)),
            ))
        d["activities"] = acts
        return d
    d["actions"] = [actdig(a) for a in p.actions]
    d["goals"] = [edig(g) for g in p.goals]
    d["timed_goals"] = sorted(repr((ivdig(iv), sorted(repr(edig(g)) for g in gs))) for iv, gs in p.timed_goals.items())
    d["timed_effects"] = sorted(repr((timdig(t), [effdig(e) for e in es])) for t, es in p.timed_effects.items())
    d["traj"] = [edig(t) for t in p.trajectory_constraints]
    if isinstance(p, HierarchicalProblem):
        d["tasks"] = [(t.name, tuple((q.name, tdig(q.type)) for q in t.parameters)) for t in p.tasks]
        d["methods"] = [
            (m.name, tuple((q.name, tdig(q.type)) for q in m.parameters), (m.achieved_task.task.name, tuple(edig(x) for x in m.achieved_task.parameters)),
             tuple(subtaskdig(s) for s in m.subtasks), tuple(sorted(repr(edig(c)) for c in m.constraints)), tuple(edig(c) for c in m.preconditions))
            for m in p.methods
        ]
        tn = p.task_network
        d["tn"] = (tuple((v.name, tdig(v.type)) for v in tn.variables), tuple(subtaskdig(s) for s in tn.subtasks), tuple(sorted(repr(edig(c)) for c in tn.constraints)))
    return d


def plan_digest(plan):
    from unified_planning.plans import SequentialPlan, TimeTriggeredPlan

    if isinstance(plan, SequentialPlan):
        return ("seq", [(ai.action.name, tuple(edig(x) for x in ai.actual_parameters)) for ai in plan.actions])
    if isinstance(plan, TimeTriggeredPlan):
        return ("tt", sorted(repr((str(s), ai.action.name, tuple(edig(x) for x in ai.actual_parameters), None if d is None else str(d))) for s, ai, d in plan.timed_actions))
    return ("other", str(plan))


def result_digest(r):
    d = {"status": r.status.name, "engine": r.engine_name, "metrics": None if r.metrics is None else sorted(r.metrics.items()),
         "logs": None if r.log_messages is None else [(l.level.name, l.message) for l in r.log_messages]}
    if hasattr(r, "plan"):
        d["plan"] = None if r.plan is None else plan_digest(r.plan)
    return d


def first_diff(a, b, path=""):
    if type(a) != type(b):
        return f"{path}: {a!r} vs {b!r}"
    if isinstance(a, dict):
        for k in a:
            if k not in b:
                return f"{path}.{k}: missing"
            r = first_diff(a[k], b[k], f"{path}.{k}")
            if r:
                return r
        return None
    if isinstance(a, (list, tuple)):
        if len(a) != len(b):
            return f"{path}: length {len(a)} vs {len(b)}: {a!r} vs {b!r}"[:600]
        for i, (x, y) in enumerate(zip(a, b)):
            r = first_diff(x, y, f"{path}[{i}]")
            if r:
                return r
        return None
    return None if a == b else f"{path}: {a!r} vs {b!r}"[:600]


# ------------------------------------------------------------------ builders


def build_htn(case):
    from unified_planning.model.htn import HierarchicalProblem, Method, Task

    # the HTN model (TaskNetwork(), Subtask(...)) is tied to the global environment
    from unified_planning.environment import get_environment

    b = build(case["problem"], env=get_environment(), problem_cls=HierarchicalProblem)
    p, em = b.problem, b.em
    h = case["htn"]
    tasks = {}
    for t in h["tasks"]:
        from collections import OrderedDict

        tk = Task(t["name"], OrderedDict((n, b.typ(pt)) for n, pt in t["params"]), b.env)
        p.add_task(tk)
        tasks[t["name"]] = tk

    def args_of(container, specs):
        out = []
        for s in specs:
            if s[0] == "obj":
                out.append(em.ObjectExp(b.objects[s[1]]))
            else:
                out.append(container.parameter(s[1]))
        return out

    for m in h["methods"]:
        from collections import OrderedDict

        me = Method(m["name"], OrderedDict((n, b.typ(pt)) for n, pt in m["params"]), b.env)
        me.set_task(tasks[m["task"]], *[me.parameter(n) for n in m["task_args"]])
        sts = []
        for s in m["subtasks"]:
            if s["kind"] == "none":
                sts.append(None)
                continue
            target = tasks[s["name"]] if s["kind"] == "task" else b.actions[s["name"]]
            sts.append(me.add_subtask(target, *args_of(me, s["args"]), ident=s["id"]))
        for i, j in m["order"]:
            if sts[i] is not None and sts[j] is not None and i != j:
                me.set_ordered(sts[i], sts[j])
        b.params = {q.name: q for q in me.parameters}
        for c in m["pre"]:
            me.add_precondition(b.expr(c))
        b.params = {}
        p.add_method(me)
    tn = p.task_network
    tvars = {}
    for n, pt in h["tn"]["vars"]:
        tvars[n] = tn.add_variable(n, b.typ(pt))
    sts = []
    for s in h["tn"]["subtasks"]:
        if s["kind"] == "none":
            sts.append(None)
            continue
        target = tasks[s["name"]] if s["kind"] == "task" else b.actions[s["name"]]
        args = [em.ObjectExp(b.objects[a[1]]) if a[0] == "obj" else tvars[a[1]] for a in s["args"]]
        sts.append(tn.add_subtask(target, *args, ident=s["id"]))
    for i, j in h["tn"]["order"]:
        if sts[i] is not None and sts[j] is not None and i != j:
            tn.set_ordered(sts[i], sts[j])
    return b


def build_sched(case):
    from unified_planning.environment import Environment
    from unified_planning.model import Object
    from unified_planning.model.scheduling import SchedulingProblem
    from unified_planning.model import timing as T

    s = case["sched"]
    # the scheduling model builds parts of activities with the global-environment shortcuts
    # (add_deadline, add_release_date, ...), so scheduling problems live in the global environment
    from unified_planning.environment import get_environment

    env = get_environment()
    tm, em = env.type_manager, env.expression_manager
    p = SchedulingProblem("sched", env)
    types = {}
    for tn, parent in s["types"]:
        types[tn] = tm.UserType(tn, types[parent] if parent else None)
    objs = {}
    for on, tn in s["objects"]:
        objs[on] = p.add_object(on, types[tn])

    def typ(ts):
        if ts == "bool":
            return tm.BoolType()
        if ts[0] == "int":
            return tm.IntType(ts[1], ts[2])
        if ts[0] == "real":
            return tm.RealType(None if ts[1] is None else frac(ts[1]), None if ts[2] is None else frac(ts[2]))
        return types[ts[1]]

    res = {r["name"]: p.add_resource(r["name"], r["cap"]) for r in s["resources"]}
    fls = {}
    for f in s["fluents"]:
        t = typ(f["type"])
        if t.is_bool_type():
            dv = False
        elif t.lower_bound is not None:
            dv = t.lower_bound
        elif t.upper_bound is not None:
            dv = t.upper_bound
        else:
            dv = 0
        fls[f["name"]] = p.add_fluent(f["name"], t, default_initial_value=dv)
    for n, ts in s["vars"]:
        p.add_variable(n, typ(ts))
    acts = {}

    def timing(t):
        if t[0] == "s":
            return T.StartTiming(t[1])
        return T.EndTiming() - t[1] if t[1] else T.EndTiming()

    for a in s["activities"]:
        lo, hi = a["dur"]
        act = p.add_activity(a["name"], duration=lo, optional=a["optional"]) if lo == hi else p.add_activity(a["name"], optional=a["optional"])
        if lo != hi:
            act.set_duration_bounds(lo, hi)
        for n, ts in a["params"]:
            act.add_parameter(n, typ(ts))
        for rn, amount in a["uses"]:
            act.uses(res[rn], amount)
        for e in a["effs"]:
            fe = fls[e["fl"]]
            v = e["val"][1]
            if e["kind"] == "assign":
                act.add_effect(timing(e["t"]), fe, v)
            elif e["kind"] == "inc":
                act.add_increase_effect(timing(e["t"]), fe, v)
            else:
                act.add_decrease_effect(timing(e["t"]), fe, v)
        for c in a["conds"]:
            iv = T.TimeInterval(timing(c["iv"][0]), timing(c["iv"][1]), c["iv"][2], c["iv"][3])
            act.add_condition(iv, fls[c["fl"]])
        if a["release"] is not None:
            act.add_release_date(a["release"])
        if a["deadline"] is not None:
            act.add_deadline(a["deadline"])
        acts[a["name"]] = act
    for c in s["constraints"]:
        if c[0] == "before":
            p.add_constraint(em.LE(em.Plus(acts[c[1]].end, c[3]), acts[c[2]].start))
    if s["metric"] == "makespan":
        from unified_planning.model.metrics import MinimizeMakespan

        p.add_quality_metric(MinimizeMakespan(env))
    return p


def ground_instances(b, idxs):
    """decode [action index, arg index] pairs into ActionInstances over the problem's actions and objects"""
    from unified_planning.plans import ActionInstance

    p, em = b.problem, b.em
    out = []
    acts = list(p.actions)
    for st_ in idxs:
        a = acts[st_[0] % len(acts)]
        args = []
        k = st_[1]
        ok = True
        for q in a.parameters:
            if q.type.is_user_type():
                objs = list(p.objects(q.type))
                if not objs:
                    ok = False
                    break
                args.append(em.ObjectExp(objs[k % len(objs)]))
                k //= max(1, len(objs))
            elif q.type.is_int_type():
                lo = q.type.lower_bound if q.type.lower_bound is not None else 0
                args.append(em.Int(lo + (k % 2)))
            elif q.type.is_bool_type():
                args.append(em.Bool(k % 2 == 0))
            else:
                args.append(em.Real(Fraction(k % 5, 2)))
        if ok:
            out.append((a, ActionInstance(a, tuple(args))))
    return out


# ------------------------------------------------------------------ oracle


def check(ctx, case):
    from google.protobuf.message import Message
    import unified_planning.engines  # noqa: F401  (proto_reader's annotations need it imported first)
    import unified_planning.shortcuts  # noqa: F401
    from unified_planning.environment import Environment
    from unified_planning.grpc.proto_writer import ProtobufWriter
    from unified_planning.grpc.proto_reader import ProtobufReader

    k = case["kind"]
    feats = set()

    def scan(o):
        if isinstance(o, dict):
            for v in o.values():
                scan(v)
        elif isinstance(o, (list, tuple)):
            if len(o) == 3 and o[0] in ("int", "real") and ((o[1] is None) != (o[2] is None)):
                feats.add("half-bounded")
            if len(o) == 2 and o[0] == "r" and isinstance(o[1], str) and "/" in o[1]:
                feats.add("fraction")
            if len(o) == 2 and o[0] in ("i", "r") and isinstance(o[1], int) and abs(o[1]) >= 2**31:
                feats.add("big")
            if len(o) == 4 and isinstance(o[2], bool) and isinstance(o[3], bool) and (o[2] or o[3]):
                feats.add("open-interval")
            if len(o) == 2 and o[0] in ("ge",):
                feats.add("global-end")
            if len(o) == 2 and o[0] in ("s", "e", "gs", "ge") and o[1] not in (0, "0"):
                feats.add("delayed")
            for v in o:
                scan(v)

    scan(case)
    w, r = ProtobufWriter(), ProtobufReader()

    def roundtrip(obj, wargs, rargs, what):
        try:
            msg = w.convert(obj, *wargs)
        except Exception as e:
            # "that the protobuf writer accepts": a writer exception means not accepted
            ctx.cls(f"writer-rejected:{what}:{type(e).__name__}")
            raise Abstain(f"writer-rejected:{type(e).__name__}")
        # serialise / parse: what travels over the wire
        data = msg.SerializeToString()
        msg2 = type(msg)()
        msg2.ParseFromString(data)
        try:
            back = r.convert(msg2, *rargs)
        except Exception as e:
            import traceback

            tb = traceback.extract_tb(e.__traceback__)
            where = next((f"{f.name}" for f in reversed(tb) if "unified_planning" in f.filename), "?")
            raise Violation(f"reader-raises:{what}:{type(e).__name__}:{where}", f"writer accepted the {what} but reading it back raised {type(e).__name__}: {str(e)[:300]}", case)
        return back, data

    if k in ("problem", "temporal", "htn", "sched"):
        if k == "htn":
            b = build_htn(case)
            p = b.problem
        elif k == "sched":
            p = build_sched(case)
        else:
            b = build(case["problem"])
            p = b.problem
            if case.get("discrete_time"):
                p.discrete_time = True
            if case.get("self_overlapping"):
                p.self_overlapping = True
        env = p.environment
        d0 = problem_digest(p)
        kind0 = p.kind
        back, data = roundtrip(p, (), (env,), k)
        d1 = problem_digest(back)
        df = first_diff(d0, d1, "problem")
        if df:
            raise Violation(f"digest-differs:{k}:{df.split(':')[0].split('[')[0]}", f"re-read {k} problem differs structurally: {df}", case)
        if not (back == p):
            raise Violation(f"not-equal:{k}", f"re-read {k} problem is not == to the original although its structural digest is identical", case)
        if hash(back) != hash(p):
            raise Violation(f"hash-differs:{k}", "re-read problem == original but hashes differ", case)
        if back.kind != kind0:
            a, c = set(kind0.features), set(back.kind.features)
            raise Violation(f"kind-differs:{k}", f"kind differs: only original {sorted(a - c)}, only re-read {sorted(c - a)}", case)
        # fresh environment: same digest
        if k not in ("sched", "htn"):  # (the scheduling and HTN models are tied to the global environment)
            msg3 = type(w.convert(p))()
            msg3.ParseFromString(data)
            try:
                fresh = ProtobufReader().convert(msg3, Environment())
            except Exception as e:
                raise Violation(f"reader-raises-fresh-env:{k}:{type(e).__name__}", f"reading the message into a fresh environment raised {type(e).__name__}: {str(e)[:300]}", case)
            df = first_diff(d0, problem_digest(fresh), "problem")
            if df:
                raise Violation(f"digest-differs-fresh-env:{k}", f"problem read into a fresh environment differs: {df}", case)
        feats.add(k) if k in ("htn", "sched", "temporal") else None
        obj_desc = k
    elif k in ("plan-seq", "plan-tt"):
        from unified_planning.plans import SequentialPlan, TimeTriggeredPlan

        b = build(case["problem"])
        p = b.problem
        if k == "plan-seq":
            insts = ground_instances(b, case["plan"])
            plan = SequentialPlan([ai for _, ai in insts], p.environment)
        else:
            from unified_planning.model import DurativeAction

            insts = ground_instances(b, [s[:2] for s in case["plan"]])
            tas = []
            for (a, ai), s in zip(insts, case["plan"]):
                tas.append((frac(s[2]), ai, frac(s[3]) if isinstance(a, DurativeAction) else None))
            plan = TimeTriggeredPlan(tas, p.environment)
        d0 = plan_digest(plan)
        back, _ = roundtrip(plan, (), (p,), k)
        if len(plan.actions if k == "plan-seq" else plan.timed_actions) == 0:
            # an empty plan carries no class information in the message
            if plan_digest(back)[1] != []:
                raise Violation(f"digest-differs:{k}", f"empty plan re-read as {back}", case)
        else:
            df = first_diff(d0, plan_digest(back), "plan")
            if df:
                raise Violation(f"digest-differs:{k}", f"re-read plan differs: {df}", case)
            if not (back == plan):
                raise Violation(f"not-equal:{k}", "re-read plan is not == to the original although digests agree", case)
        feats.add(k)
    elif k in ("valres", "pgres"):
        from unified_planning.engines import LogLevel, LogMessage, PlanGenerationResult, PlanGenerationResultStatus, ValidationResult, ValidationResultStatus
        from unified_planning.plans import SequentialPlan

        b = build(case["problem"])
        p = b.problem
        rs = case["res"]
        logs = None if rs["none_logs"] else [LogMessage(getattr(LogLevel, l), m) for l, m in rs["logs"]]
        metrics = None if rs["none_metrics"] else dict(rs["metrics"])
        if k == "valres":
            res = ValidationResult(getattr(ValidationResultStatus, rs["status"]), rs["engine"], logs, metrics)
            d0 = result_digest(res)
            back, _ = roundtrip(res, (), (), k)
        else:
            plan = None
            if rs["status"] in ("SOLVED_SATISFICING", "SOLVED_OPTIMALLY", "INTERMEDIATE"):
                plan = SequentialPlan([ai for _, ai in ground_instances(b, case["plan"])], p.environment)
            res = PlanGenerationResult(getattr(PlanGenerationResultStatus, rs["status"]), plan, rs["engine"], metrics, logs)
            d0 = result_digest(res)
            back, _ = roundtrip(res, (), (p,), k)
        d1 = result_digest(back)

        # None and empty collections are both "nothing" in a message: normalise
        def norm(d):
            d = dict(d)
            d["metrics"] = d["metrics"] or []
            d["logs"] = d["logs"] or []
            if d.get("plan") is not None and d["plan"][1] == []:
                d["plan"] = ("empty", [])
            return d

        df = first_diff(norm(d0), norm(d1), "result")
        if df:
            raise Violation(f"digest-differs:{k}:{df.split(':')[0]}", f"re-read result differs: {df}", case)
        if bool(d0["metrics"]) and bool(d0["logs"]) and not (d0.get("plan") is not None and d0["plan"][1] == []):
            if not (back == res):
                raise Violation(f"not-equal:{k}", "re-read result is not == to the original although digests agree", case)
        feats.add(k)
    elif k == "compres":
        from harness.comp import compiler_class

        b = build(case["problem"])
        p = b.problem
        ccls, ckind = compiler_class(case["compiler"])
        comp = ccls()
        if not comp.supports(p.kind):
            raise Abstain("compiler-does-not-support")
        try:
            cres = comp.compile(p, ckind)
        except Exception:
            raise Abstain("compile-raised")
        d0 = problem_digest(cres.problem)
        try:
            back, _ = roundtrip(cres, (), (p,), k)
        except Violation as v:
            if "UPConflictingEffectsException" in v.sig or "UPTypeError" in v.sig:
                # Compilers build actions through internal setters; some results cannot be rebuilt through the public
                # model API at all (two effects on one fluent after a tautological condition was simplified away, a
                # constant folded into an assignment that violates the target's bounds).  No reader could rebuild such
                # a problem: if re-adding the compiled action's own effects to a fresh action raises, the case is
                # outside what the API can express (C08 / C23 territory), not a round-trip question.
                from unified_planning.model import InstantaneousAction

                for a in cres.problem.actions:
                    if not isinstance(a, InstantaneousAction):
                        continue
                    fresh = InstantaneousAction(a.name + "_probe", _env=p.environment, **{q.name: q.type for q in a.parameters})
                    try:
                        for e in a.effects:
                            m = {True: fresh.add_effect, False: None}[e.is_assignment()] or (fresh.add_increase_effect if e.is_increase() else fresh.add_decrease_effect)
                            sub = {b.em.ParameterExp(q): b.em.ParameterExp(fresh.parameter(q.name)) for q in a.parameters}
                            m(e.fluent.substitute(sub), e.value.substitute(sub), e.condition.substitute(sub), e.forall)
                    except Exception:
                        raise Abstain("compiled-problem-not-expressible-through-api")
            raise
        df = first_diff(d0, problem_digest(back.problem), "compiled-problem")
        if df:
            raise Violation(f"digest-differs:{k}", f"re-read compiled problem differs: {df}", case)
        if back.engine_name != cres.engine_name:
            raise Violation(f"engine-name-differs:{k}", f"{back.engine_name!r} vs {cres.engine_name!r}", case)
        # behavioural comparison of the map-back
        from unified_planning.plans import ActionInstance

        for a in cres.problem.actions:
            a2 = back.problem.action(a.name)
            args = []
            ok = True
            for q in a.parameters:
                if not q.type.is_user_type():
                    ok = False
                    break
                objs = list(cres.problem.objects(q.type))
                if not objs:
                    ok = False
                    break
                args.append(b.em.ObjectExp(objs[0]))
            if not ok:
                continue
            m0 = cres.map_back_action_instance(ActionInstance(a, tuple(args)))
            m1 = back.map_back_action_instance(ActionInstance(a2, tuple(args)))
            s0 = None if m0 is None else (m0.action.name, tuple(edig(x) for x in m0.actual_parameters))
            s1 = None if m1 is None else (m1.action.name, tuple(edig(x) for x in m1.actual_parameters))
            if s0 != s1:
                raise Violation(f"map-back-differs:{k}", f"compiled action {a.name}: original result maps it to {s0}, re-read result to {s1}", case)
        feats.add(k)
    ctx.cls(f"kind:{k}")
    for f in feats:
        ctx.cls(f"feature:{f}")
    if feats:
        ctx.nontriv(case_hash(case), {"kind": k, "features": sorted(feats)})


def shard(ctx):
    def oracle(case):
        check(ctx, case)

    ctx.run_hypothesis(cases(), oracle, ctx.scale(1600, 60000))


def replay(ctx, case):
    check(ctx, case)
