"""C35 — the simulated execution environment is faithful to its contingent problem."""

from __future__ import annotations

from itertools import product

from hypothesis import strategies as st

from harness import gen
from harness.build import build
from harness.core import Abstain, HarnessError, Violation, case_hash
from harness.refsim import UNDEF, RefSim, const_value

PROPERTY = "C35"
TECHNIQUE = "model-based history testing: generated contingent problems and action sequences are executed on SimulatedExecutionEnvironment and on the harness' reference simulator; the hidden state is read back through sensing actions only"
RULE = (
    "Generated ContingentProblems: 2-5 Boolean (and int) fluents with 0-1 parameters, some hidden by oneof / or / unknown "
    "constraints built around a satisfying hidden model, the others with explicit values, per-fluent defaults (true and "
    "false) and per-type constructor defaults; ordinary actions with conditional / forall effects; sensing actions with "
    "preconditions and 1-2 observed fluents, plus one precondition-free sensing action per fluent through which the harness "
    "reads the whole state with the public apply() only; a random.seed value and a sequence of <= 8 ground actions "
    "(applicable and not).  Oracle: the sensed initial state satisfies every oneof (exactly one literal true) and or "
    "constraint and gives every non-hidden ground fluent its declared initial value (explicit, else per-fluent default, else "
    "per-type default); each step: the reference says inapplicable <=> apply raises UPUsageError and the re-sensed state is "
    "unchanged, otherwise the re-sensed state equals the reference successor; a sensing action returns exactly its observed "
    "ground fluents with their current values; is_goal_reached equals the reference goal test.  Non-trivial = problem with "
    ">= 1 oneof / or constraint, a per-fluent default that differs from the per-type default (or no type default), and a "
    "sequence with >= 1 applied state-changing action; distinct by canonical case."
)
SHARDS = {"quick": 8, "thorough": 16}

PROF = gen.Profile(
    ifuns=False, undefined=False, invariants=False, traj=False, bounded=False, fluent_kinds=["bool", "bool", "bool", "int"], max_arity=1,
    max_fluents=4, max_objects=3, nested_fluent_args=False, max_actions=3,
)


@st.composite
def cases(draw):
    g = gen.Gen(draw, PROF)
    p = g.problem()
    p["goals"] = p["goals"][:1]
    # per-type defaults (constructor) and per-fluent defaults
    td = []
    if g.b(0.6):
        td.append(["bool", ["b", g.b(0.4)]])
    if g.b(0.5):
        td.append([["int", None, None], ["i", g.i(0, 2)]])
    p["type_defaults"] = td
    tdm = {repr(t): v for t, v in td}
    for f in p["fluents"]:
        k = g.i(0, 2)
        if k == 0 and repr(f["type"]) in tdm:
            f["default"] = None  # falls back on the per-type default
        elif f["type"] == "bool":
            f["default"] = ["b", g.b(0.6)]
        elif f["default"] is None:
            f["default"] = ["i", g.i(0, 3)]
    # hidden model over ground Boolean fluents
    ground = []
    for f in p["fluents"]:
        if f["type"] != "bool":
            continue
        doms = [g.objs_of(pt[1]) for _, pt in f["params"]]
        for combo in product(*doms):
            ground.append(["fl", f["name"]] + [["obj", o] for o in combo])
    hidden_cands = [x for x in ground if g.b(0.5)][:6]
    model = {repr(x): g.b() for x in hidden_cands}
    cons = []
    for _ in range(g.i(1, 3)):
        if not hidden_cands:
            break
        k = g.pick(["oneof", "or", "unknown"])
        if k == "unknown":
            cons.append(["unknown", [g.pick(hidden_cands)]])
            continue
        n = g.i(1, min(3, len(hidden_cands)))
        start = g.i(0, len(hidden_cands) - 1)
        items = [hidden_cands[(start + j) % len(hidden_cands)] for j in range(n)]
        if g.b(0.35):
            # constraints over negated literals: or(not a, b), oneof(not a, b, c)
            neg = [g.b(0.5) for _ in items]
            lits = [["not", x] if ng else x for x, ng in zip(items, neg)]
            val_ = lambda l: (not model[repr(l[1])]) if l[0] == "not" else model[repr(l)]
            nt = sum(1 for l in lits if val_(l))
            if (k == "oneof" and nt == 1) or (k == "or" and nt >= 1):
                cons.append([k, lits])
            continue
        trues = [x for x in items if model[repr(x)]]
        if k == "oneof":
            if len(trues) == 0:
                model[repr(items[0])] = True
            elif len(trues) > 1:
                for x in trues[1:]:
                    # keep other constraints consistent: only flip when no earlier constraint mentions x
                    if any(x in c[1] for c in cons):
                        items = [y for y in items if y != x]
                    else:
                        model[repr(x)] = False
            if not items:
                continue
            cons.append(["oneof", items])
        else:
            if not trues:
                if any(items[0] in c[1] and c[0] == "oneof" for c in cons):
                    continue
                model[repr(items[0])] = True
            cons.append(["or", items])
    # soundness of the generator: keep only constraints the hidden model satisfies (always satisfiable)
    def holds(c):
        n = sum(1 for x in c[1] if ((not model[repr(x[1])]) if x[0] == "not" else model[repr(x)]))
        return c[0] == "unknown" or (c[0] == "oneof" and n == 1) or (c[0] == "or" and n >= 1)

    cons = [c for c in cons if holds(c)]
    hidden = {repr(x[1] if x[0] == "not" else x) for c in cons for x in c[1]}
    # explicit values only on non-hidden ground fluents
    p["init"] = [e for e in p["init"] if repr(e[0]) not in hidden]
    # sensing actions
    sens = []
    for k in range(g.i(0, 2)):
        nobs = g.i(1, 2)
        params = [["p0", ["user", g.pick(g.types)[0]]]] if g.b(0.5) else []
        sc = {"params": [(n, t) for n, t in params], "vars": []}
        obs = []
        for _ in range(nobs):
            f = g.pick([f for f in p["fluents"] if f["type"] == "bool"])
            fe = g.fluent_app(f, sc, 0)
            if fe is not None and fe not in obs:
                obs.append(fe)
        if obs:
            sens.append({"name": f"sense{k}", "params": params, "pre": [g.bool_expr(sc, 1)] if g.b(0.5) else [], "obs": obs})
    seq = [[g.i(0, 30), g.i(0, 50)] for _ in range(g.i(1, 8))]
    return {"problem": p, "constraints": cons, "sensing": sens, "seed": g.i(0, 10**6), "seq": seq}


class Side:
    def __init__(self, case):
        from collections import OrderedDict

        from unified_planning.model.contingent import ContingentProblem, SensingAction

        self.b = build(case["problem"], problem_cls=ContingentProblem)
        b = self.b
        p = b.problem
        self.p = p
        for k, items in case["constraints"]:
            fes = [b.expr(x) for x in items]
            if k == "oneof":
                p.add_oneof_initial_constraint(fes)
            elif k == "or":
                p.add_or_initial_constraint(fes)
            else:
                p.add_unknown_initial_constraint(fes[0])
        for s in case["sensing"]:
            a = SensingAction(s["name"], OrderedDict((n, b.typ(t)) for n, t in s["params"]), b.env)
            b.params = {q.name: q for q in a.parameters}
            for c in s["pre"]:
                a.add_precondition(b.expr(c))
            for o in s["obs"]:
                a.add_observed_fluent(b.expr(o))
            b.params = {}
            p.add_action(a)
        # one precondition-free reader per fluent
        self.readers = {}
        for f in p.fluents:
            a = SensingAction(f"read_{f.name}", OrderedDict((q.name, q.type) for q in f.signature), b.env)
            a.add_observed_fluent(b.em.FluentExp(f, tuple(b.em.ParameterExp(q) for q in a.parameters)))
            p.add_action(a)
            self.readers[f.name] = a


def expected_initial(case):
    """declared initial value of every ground fluent, from the spec alone"""
    spec = case["problem"]
    tdm = {repr(t): v for t, v in spec.get("type_defaults") or []}
    explicit = {repr(k): v for k, v in spec["init"]}
    objs_of = {}
    subs = {}
    for tn, par in spec["types"]:
        subs[tn] = [tn]
    changed = True
    while changed:
        changed = False
        for tn, par in spec["types"]:
            for anc, lst in subs.items():
                if par in lst and tn not in lst:
                    lst.append(tn)
                    changed = True
    out = {}
    for f in spec["fluents"]:
        doms = [[o for o, t in spec["objects"] if t in subs[pt[1]]] for _, pt in f["params"]]
        for combo in product(*doms):
            key = ["fl", f["name"]] + [["obj", o] for o in combo]
            v = explicit.get(repr(key))
            if v is None:
                v = f["default"]
            if v is None:
                v = tdm.get(repr(f["type"]))
            out[(f["name"], tuple(combo))] = (None if v is None else v[1], repr(key))
    return out


def check(ctx, case):
    import random

    from unified_planning.exceptions import UPUsageError
    from unified_planning.model.contingent import SimulatedExecutionEnvironment
    from unified_planning.plans import ActionInstance

    side = Side(case)
    b, p = side.b, side.p
    em = b.em
    random.seed(case["seed"])  # the library draws the hidden state with random.choice: the seed is a generated input
    try:
        env = SimulatedExecutionEnvironment(p)
    except Exception as e:
        raise Violation(f"constructor-exception:{type(e).__name__}", f"SimulatedExecutionEnvironment(problem) raised {e!r}", case)
    ref = RefSim(p, check_bounds=False, check_invariants=False)
    exp0 = expected_initial(case)
    hidden = {repr(x[1] if x[0] == "not" else x) for c in case["constraints"] for x in c[1]}

    def sense_all(where):
        st_ = {}
        for (fname, combo), (_, _) in exp0.items():
            a = side.readers[fname]
            ai = ActionInstance(a, tuple(em.ObjectExp(b.objects[o]) for o in combo))
            try:
                obs = env.apply(ai)
            except Exception as e:
                raise Violation(f"reader-exception:{type(e).__name__}", f"{where}: reading {fname}{list(combo)} through its sensing action raised {e!r}", case)
            if len(obs) != 1:
                raise Violation("observation-keys-differ", f"{where}: sensing {fname}{list(combo)} returned {len(obs)} observations", case)
            (k, v), = obs.items()
            if str(k) != str(em.FluentExp(b.fluents[fname], tuple(em.ObjectExp(b.objects[o]) for o in combo))):
                raise Violation("observation-keys-differ", f"{where}: sensing {fname}{list(combo)} returned key {k}", case)
            st_[(fname, tuple(combo))] = const_value(v)
        return st_

    s = sense_all("initial state")
    # initial state: non-hidden declared values, constraints on hidden ones
    for key, (want, rk) in exp0.items():
        if rk in hidden or want is None:
            continue
        got = s[key]
        w = want if isinstance(want, bool) else __import__("fractions").Fraction(str(want))
        if got != w:
            src = "explicit" if any(repr(k) == rk for k, _ in case["problem"]["init"]) else ("per-fluent default" if next(f for f in case["problem"]["fluents"] if f["name"] == key[0])["default"] is not None else "per-type default")
            raise Violation(f"initial-value-differs:{src.replace(' ', '-')}", f"non-hidden {key[0]}{list(key[1])}: declared initial value {want} ({src}), environment starts with {got}", case)

    def val(x):
        if x[0] == "not":
            return not val(x[1])
        return s[(x[1], tuple(a[1] for a in x[2:]))]

    for k, items in case["constraints"]:
        n = sum(1 for x in items if val(x) is True)
        if k == "oneof" and n != 1:
            raise Violation("oneof-violated", f"oneof {items}: {n} of them are true in the chosen initial state", case)
        if k == "or" and n < 1:
            raise Violation("or-violated", f"or {items}: none is true in the chosen initial state", case)
    # reference state in refsim's format
    rstate = {}
    for (fname, combo), v in s.items():
        rstate[(fname, combo)] = v
    changed = False
    acts = [a for a in p.actions if not a.name.startswith("read_")]
    for si, (ai_, k) in enumerate(case["seq"]):
        if not acts:
            break
        a = acts[ai_ % len(acts)]
        insts = ref.instances(a)
        if not insts:
            continue
        args = insts[k % len(insts)]
        ainst = ActionInstance(a, tuple(em.ObjectExp(b.objects[o]) if isinstance(o, str) else em.Int(int(o)) for o in args))
        try:
            succ, why = ref.try_apply(rstate, a, args)
        except Abstain as ab:
            ctx.abstain(ab.reason)
            return
        desc = f"step {si} {a.name}{list(args)}"
        try:
            obs = env.apply(ainst)
            raised = None
        except UPUsageError as e:
            raised = e
        except Exception as e:
            raise Violation(f"apply-exception:{type(e).__name__}", f"{desc}: apply raised {e!r}", case)
        if succ is None and raised is None:
            raise Violation("inapplicable-action-applied", f"{desc}: the reference says inapplicable ({why}) but apply succeeded", case)
        if succ is not None and raised is not None:
            raise Violation("applicable-action-rejected", f"{desc}: the reference applies it but apply raised {raised}", case)
        if succ is not None:
            # observations of sensing actions
            from unified_planning.model.contingent import SensingAction

            if isinstance(a, SensingAction):
                want = {}
                bind = ref.binding(a, args)
                for of in a.observed_fluents:
                    oargs = tuple(ref.E.value(x, rstate, bind, {}) for x in of.args)
                    want[(of.fluent().name, oargs)] = succ[(of.fluent().name, oargs)]
                got = {(k_.fluent().name, tuple(const_value(x) for x in k_.args)): const_value(v) for k_, v in obs.items()}
                if got != want:
                    raise Violation("observation-differs", f"{desc}: observed {got}, expected {want}", case)
            elif obs:
                raise Violation("observation-from-ordinary-action", f"{desc}: an ordinary action returned observations {obs}", case)
            if succ != rstate:
                changed = True
            rstate = succ
        now = sense_all(f"after {desc}")
        diff = [(k_, now[k_], rstate[k_]) for k_ in now if now[k_] != rstate[k_]]
        if diff:
            raise Violation("state-differs" + (":after-rejected-action" if succ is None else ""), f"after {desc} ({'applied' if succ is not None else 'rejected'}): environment has {[(d[0], d[1]) for d in diff[:3]]}, reference {[(d[0], d[2]) for d in diff[:3]]}", case)
        try:
            g0 = ref.goal(rstate)
        except Abstain:
            continue
        if env.is_goal_reached() != g0:
            raise Violation("goal-verdict-differs", f"after {desc}: is_goal_reached()={env.is_goal_reached()}, reference {g0}", case)
    tdm = {repr(t): v for t, v in case["problem"].get("type_defaults") or []}
    special_default = any(f["default"] is not None and (repr(f["type"]) not in tdm or tdm[repr(f["type"])] != f["default"]) for f in case["problem"]["fluents"])
    ctx.cls("constraints:" + "+".join(sorted({c[0] for c in case["constraints"]})) if case["constraints"] else "constraints:none")
    if special_default:
        ctx.cls("per-fluent-default-differs-from-type-default")
    if any(c[0] in ("oneof", "or") for c in case["constraints"]) and special_default and changed:
        ctx.nontriv(case_hash(case), {"constraints": case["constraints"], "seq_len": len(case["seq"])})


def shard(ctx):
    ctx.run_hypothesis(cases(), lambda case: check(ctx, case), ctx.scale(500, 10000))


def replay(ctx, case):
    check(ctx, case)
