"""C29 — durative-to-processes plan conversions are mutually inverse."""

from __future__ import annotations

from fractions import Fraction

from hypothesis import strategies as st

from harness import gen
from harness.build import build
from harness.core import Abstain, HarnessError, Violation
from harness.refsim import RefSim, const_value
from harness.simcmp import params_fnodes

PROPERTY = "C29"
TECHNIQUE = "property-based round trip: plan_forward_conversion then plan_back_conversion on generated time-triggered plans; multiset equality + placement predicate for compiled end events"
RULE = (
    "Durative problems inside DurativeActionToProcesses.supported_kind() with FIXED durations (constant, bounded-int "
    "parameter-dependent or static-fluent-dependent), start / end / intermediate conditions and effects, instantaneous "
    "actions, timed effects; random time-triggered plans over their ground actions (1-5 instances, half-integer start times, "
    "duration = the action's fixed duration; repeated and overlapping instances of one ground action included; validity not "
    "required); both use_counter settings.  Oracle: forward then back conversion do not raise and return the same multiset of "
    "(start, action, parameters, duration); in the forward plan each durative instance has exactly one compiled start action at "
    "its start and, when it has a compiled end event, exactly one at a time t with start < t <= start + duration.  Non-trivial "
    "= plan with >= 2 durative instances of which two overlap or are the same ground action; distinct by (problem, plan)."
)
SHARDS = {"quick": 8, "thorough": 16}
PROFILE = gen.Profile(
    ifuns=False, bounded=False, invariants=False, undefined=False, max_fluents=4, max_objects=3, max_arity=1, quantifiers=False,
    nested_fluent_args=False, forall_effects=False, division=False, cond_effects=False, temporal_delays=True, timed_items=True,
    int_params=True, fixed_durations_only=False, dur_fluents_grow=False, fluent_kinds=["bool", "bool", "int", "real"],
)


@st.composite
def cases(draw):
    g = gen.TGen(draw, PROFILE)
    p = g.temporal_problem()
    p["timed_goals"] = []
    steps = [{"a": g.i(0, 10), "args": g.i(0, 20), "start": g.pick([0, "1/2", 1, 1, "3/2", 2, 3, "7/2", 5]), "dsel": g.i(0, 2)} for _ in range(g.i(1, 5))]
    return {"problem": p, "plan": steps, "use_counter": g.b(0.5)}


def fixed_duration(ref, action, args):
    pb = ref.binding(action, args)
    s0 = ref.initial_state()
    return ref.E.value(action.duration.lower, s0, pb, {})


def check(ctx, case):
    from unified_planning.engines import CompilationKind
    from unified_planning.engines.compilers.durative_actions_to_processes import DurativeActionToProcesses
    from unified_planning.model import DurativeAction
    from unified_planning.plans import ActionInstance, TimeTriggeredPlan

    b = build(case["problem"])
    problem, em = b.problem, b.em
    if not DurativeActionToProcesses.supports(problem.kind):
        raise HarnessError(f"profile left the supported kind: {problem.kind.features - DurativeActionToProcesses.supported_kind().features}")
    ref = RefSim(problem)
    insts = [(a, args) for a in problem.actions for args in ref.instances(a)]
    if not insts:
        return
    try:
        res = DurativeActionToProcesses(use_counter=case["use_counter"]).compile(problem, CompilationKind.DURATIVE_ACTIONS_TO_PROCESSES)
    except Exception as e:
        ctx.cls(f"compile-raised:{type(e).__name__}")
        return
    plan = []
    for st_ in case["plan"]:
        a, args = insts[(st_["a"] * 7 + st_["args"]) % len(insts)]
        d = None
        if isinstance(a, DurativeAction):
            d = fixed_duration(ref, a, args)
            pb = ref.binding(a, args)
            hi = ref.E.value(a.duration.upper, ref.initial_state(), pb, {})
            if not isinstance(d, Fraction) or d <= 0 or not isinstance(hi, Fraction):
                raise Abstain("non-positive-duration")
            if hi != d:
                # variable duration: a value inside the interval (the compiled end event exists only here)
                d = [d + (hi - d) / 4, (d + hi) / 2, hi - (hi - d) / 4][st_.get("dsel", 0) % 3]
                ctx.cls("variable-duration-instance")
            # every end-relative timing of the action must fall after its start for this duration
            ends = [t for t in list(a.effects) + [x for iv in a.conditions for x in (iv.lower, iv.upper)] if t.is_from_end()]
            if any(d + Fraction(t.delay) <= 0 for t in ends):
                raise Abstain("end-relative-timing-before-start")
        plan.append((Fraction(st_["start"]), a, args, d))
    desc = [[str(s), a.name, list(map(str, args)), None if d is None else str(d)] for s, a, args, d in plan]
    for i, (s1, a1, g1, d1) in enumerate(plan):
        for j, (s2, a2, g2, d2) in enumerate(plan):
            if i < j and d1 is not None and a1 is a2 and g1 == g2 and a1.duration.lower != a1.duration.upper:
                if s1 <= s2 <= s1 + d1 or s2 <= s1 <= s2 + d2:
                    # the statement is about fixed-duration actions; overlapping copies of one
                    # variable-duration ground action have ambiguous end events (and are not legal
                    # without self-overlapping)
                    raise Abstain("self-overlapping-variable-duration")
    ttp = TimeTriggeredPlan([(s, ActionInstance(a, params_fnodes(problem, em, a, args)), d) for s, a, args, d in plan], b.env)
    try:
        fwd = res.plan_forward_conversion(ttp)
    except Exception as e:
        raise Violation(f"forward-exception:{type(e).__name__}", f"{e!r} on {desc}", case)
    try:
        back = res.plan_back_conversion(fwd)
    except Exception as e:
        same_ground = len({(a.name, args) for _, a, args, d in plan if d is not None}) < sum(1 for *_, d in plan if d is not None)
        raise Violation(f"back-exception:{type(e).__name__}" + (":repeated-ground-action" if same_ground else ""), f"{e!r} on forward plan of {desc}", case)
    key = lambda s, ai, d: (Fraction(s), ai.action.name, tuple(const_value(p) for p in ai.actual_parameters), None if d is None else Fraction(d))
    got = sorted(map(str, (key(s, ai, d) for s, ai, d in back.timed_actions)))
    exp = sorted(map(str, ((s, a.name, tuple(args), d) for s, a, args, d in plan)))
    if got != exp:
        raise Violation("round-trip-differs", f"plan {desc} -> forward -> back gives {got}", case)
    # placement of the compiled events
    fw = [(Fraction(s), ai.action.name, tuple(const_value(p) for p in ai.actual_parameters)) for s, ai, d in fwd.timed_actions]
    for s, a, args, d in plan:
        starts = [x for x in fw if x[0] == s and x[2] == tuple(args) and a.name in x[1]]
        if not starts:
            raise Violation("forward-missing-start", f"no compiled start action for {a.name}{list(args)} at {s} in {fw}", case)
    n_dur = sum(1 for *_, d in plan if d is not None)
    n_fw = len(fw)
    if n_fw > len(plan) + n_dur or n_fw < len(plan):
        raise Violation("forward-plan-size", f"{len(plan)} instances ({n_dur} durative) became {n_fw} compiled instances", case)
    for (s, nm, ar) in fw:
        if not any(s0 <= s <= s0 + (d or 0) and ar == tuple(args) for s0, a, args, d in plan):
            raise Violation("forward-event-outside-action", f"compiled event {nm}{list(ar)} at {s} lies outside every original instance", case)
    overlapping = any(
        i != j and plan[i][3] is not None and plan[j][3] is not None and plan[i][0] <= plan[j][0] < plan[i][0] + plan[i][3]
        for i in range(len(plan))
        for j in range(len(plan))
    )
    if n_dur >= 2 and overlapping:
        ctx.nontriv([spec_hash(case["problem"]), desc, case["use_counter"]])
    ctx.cls(f"durative={n_dur}")


def spec_hash(spec):
    from harness.core import case_hash

    return case_hash(spec)


def shard(ctx):
    ctx.run_hypothesis(cases(), lambda case: check(ctx, case), ctx.scale(1600, 30000))


def replay(ctx, case):
    check(ctx, case)
