"""C13 — substitution replaces exactly the free occurrences of its keys."""

from __future__ import annotations

from hypothesis import strategies as st

from harness import gen
from harness.core import Abstain, Violation
from harness.exprcase import build_case, interpretations
from harness.refsim import UNDEF, Evaluator
from unified_planning.model.operators import OperatorKind as OK

PROPERTY = "C13"
TECHNIQUE = "property-based testing; differential against a 20-line top-down reference substitution (identity of hash-consed nodes) + evaluation under updated interpretations"
RULE = (
    "Expressions from the typed grammar (depth <= 4, quantifiers with shadowing); substitution maps of 1-4 entries whose "
    "keys are sub-terms drawn from the target (fluent expressions, parameters, variables, compound terms; nested keys, keys "
    "under a binding quantifier) or fresh leaves, values generated of the key's type and possibly containing other keys; "
    "plus ill-typed maps.  Oracle: result `is` the reference top-down substitution; for leaf keys the result evaluates like "
    "the original under the interpretation updated by the map; an ill-typed map raises UPTypeError and later well-typed "
    "substitutions are unaffected.  Non-trivial = some key occurs in the target and (nested keys, key under a binding "
    "quantifier, compound key, or a value containing another key); distinct by hash of (expression, map)."
)
SHARDS = {"quick": 8, "thorough": 16}
PROFILE = gen.Profile(ifuns=True, max_fluents=5, max_objects=4, int_params=True, exists_eq_bias=True)

BOOL_OPS = {"and", "or", "not", "implies", "iff", "exists", "forall", "<=", "<", ">=", ">", "=", "b"}


def subterms(spec, out, bound=()):
    """collects (subspec, bound variable names in scope)"""
    if not isinstance(spec, list) or not spec:
        return
    op = spec[0]
    if op in ("i", "r", "b"):
        return
    out.append((spec, bound))
    if op in ("exists", "forall"):
        subterms(spec[2], out, bound + tuple(v[0] for v in spec[1]))
    elif op in ("obj", "par", "var"):
        return
    else:
        for s in spec[2:] if op in ("fl", "ifn") else spec[1:]:
            subterms(s, out, bound)


def spec_vars(spec, acc):
    if isinstance(spec, list) and spec:
        if spec[0] == "var":
            acc.add(spec[1])
        for s in spec[1:]:
            spec_vars(s, acc)


def ref_substitute(n, subs, em, fve):
    """top-down reference substitution on UP nodes (rebuilds through the public constructors)."""
    if n in subs:
        return subs[n]
    t = n.node_type
    if t in (OK.EXISTS, OK.FORALL):
        bound = set(n.variables())
        filtered = {k: v for k, v in subs.items() if not (fve(k) & bound)}
        body = ref_substitute(n.arg(0), filtered, em, fve)
        return (em.Exists if t == OK.EXISTS else em.Forall)(body, *n.variables())
    if not n.args:
        return n
    a = [ref_substitute(c, subs, em, fve) for c in n.args]
    if t == OK.AND:
        return em.And(a)
    if t == OK.OR:
        return em.Or(a)
    if t == OK.NOT:
        return em.Not(a[0])
    if t == OK.IMPLIES:
        return em.Implies(a[0], a[1])
    if t == OK.IFF:
        return em.Iff(a[0], a[1])
    if t == OK.PLUS:
        return em.Plus(a)
    if t == OK.TIMES:
        return em.Times(a)
    if t == OK.MINUS:
        return em.Minus(a[0], a[1])
    if t == OK.DIV:
        return em.Div(a[0], a[1])
    if t == OK.LE:
        return em.LE(a[0], a[1])
    if t == OK.LT:
        return em.LT(a[0], a[1])
    if t == OK.EQUALS:
        return em.Equals(a[0], a[1])
    if t == OK.FLUENT_EXP:
        return em.FluentExp(n.fluent(), tuple(a))
    if t == OK.INTERPRETED_FUNCTION_EXP:
        return em.InterpretedFunctionExp(n.interpreted_function(), tuple(a))
    raise AssertionError(t)


def tree_free_vars(n, bound=frozenset()):
    t = n.node_type
    if t == OK.VARIABLE_EXP:
        v = n.variable()
        return frozenset() if v in bound else frozenset({v})
    if t in (OK.EXISTS, OK.FORALL):
        return tree_free_vars(n.arg(0), bound | set(n.variables()))
    out = frozenset()
    for a in n.args:
        out |= tree_free_vars(a, bound)
    return out


@st.composite
def cases(draw):
    g = gen.Gen(draw, PROFILE)
    g.gen_types()
    g.gen_fluents()
    g.gen_ifuns()
    params = [[f"p{k}", ["int", -2, 3]] if g.b(0.3) else [f"p{k}", ["user", g.pick(g.types)[0]]] for k in range(g.i(0, 2))]
    free = [[f"w{k}", ["user", g.pick(g.types)[0]]] for k in range(g.i(0, 2))]
    scope = {"params": [(n, t) for n, t in params], "vars": [(n, t) for n, t in free]}
    e = g.bool_expr(scope, g.i(1, 4)) if g.b(0.75) else g.num_expr(scope, g.i(1, 3))
    subs_terms = []
    subterms(e, subs_terms)
    pairs = []
    nkeys = g.i(1, 4)
    illtyped = g.b(0.15)
    for j in range(nkeys):
        if subs_terms and g.b(0.85):
            k, bound = subs_terms[g.i(0, len(subs_terms) - 1)]
        else:
            k = g.pick([["par", p[0]] for p in params] + [["var", v[0], v[1]] for v in free] + [["obj", g.objects[0][0]]])
            bound = ()
        # value scope: the variables visible at the key (so keys under quantifiers get values mentioning bound vars sometimes)
        kt = key_type(g, k, params)
        if kt is None:
            continue
        vscope = dict(scope)
        if illtyped and j == 0:
            wrong = "bool" if kt != "bool" else ["int", None, None]
            v = g.expr_of_type(wrong, vscope, 1)
        else:
            if pairs and g.b(0.3):
                # a value that contains another key
                ok = [p for p in pairs if key_type(g, p[0], params) == kt]
                v = g.pick(ok)[0] if ok else g.expr_of_type(kt, vscope, 1)
            elif kt != "bool" and kt[0] in ("int", "real") and g.b(0.6):
                same = [t for t, _ in subs_terms if t[0] in ("+", "-", "*", "fl", "par") and key_type(g, t, params) == kt and t != k]
                v = g.pick(same) if same and g.b(0.5) else ["+", k, ["i", 0]]
            else:
                v = g.expr_of_type(kt, vscope, g.i(0, 2))
        if v is None:
            continue
        pairs.append([k, v])
    sig = {"types": [list(t) for t in g.types], "objects": [list(o) for o in g.objects], "fluents": g.fluents, "ifuns": g.ifuns}
    return {"sig": sig, "params": params, "free": free, "expr": e, "subs": pairs, "iseed": g.i(0, 2**20)}


def key_type(g, k, params):
    op = k[0]
    if op in BOOL_OPS:
        return "bool"
    if op in ("+", "-", "*", "/"):
        return ["real", None, None] if _has_real(g, k) else ["int", None, None]
    if op == "fl":
        t = next(f["type"] for f in g.fluents if f["name"] == k[1])
    elif op == "ifn":
        t = next(f["ret"] for f in g.ifuns if f["name"] == k[1])
    elif op == "par":
        t = next(p[1] for p in params if p[0] == k[1])
    elif op == "var":
        t = k[2]
    elif op == "obj":
        t = ["user", next(o[1] for o in g.objects if o[0] == k[1])]
    else:
        return None
    if t != "bool" and t[0] in ("int", "real"):
        return [t[0], None, None]
    return t


def _has_real(g, k):
    if isinstance(k, list) and k:
        if k[0] in ("r", "/"):
            return True
        if k[0] == "fl":
            t = next(f["type"] for f in g.fluents if f["name"] == k[1])
            if t != "bool" and t[0] == "real":
                return True
        return any(_has_real(g, s) for s in k[1:])
    return False


def oracle_factory(ctx):
    from unified_planning.exceptions import UPTypeError

    def oracle(case):
        b = build_case(case)
        em = b.em
        e = b.expr(case["expr"])
        subs = {}
        for k, v in case["subs"]:
            subs[b.expr(k)] = b.expr(v)
        if not subs:
            return
        compatible = all(k.type.is_compatible(v.type) for k, v in subs.items())
        fve = tree_free_vars
        probe_key = em.FluentExp(next(iter(b.fluents.values()))) if not next(iter(b.fluents.values())).signature else None
        try:
            got = e.substitute(subs)
        except UPTypeError as ex:
            if compatible:
                raise Violation("rejected-compatible-map", f"substitute({e}, {subs}) raised {ex!r}", case)
            # rejected before anything changed: the same well-typed call still works
            good = {k: v for k, v in subs.items() if k.type.is_compatible(v.type)}
            if good:
                try:
                    again = e.substitute(good)
                except Exception as ex2:
                    raise Violation(f"exception-after-rejection:{type(ex2).__name__}", f"{ex2!r}", case)
                exp = ref_substitute(e, good, em, fve)
                if again is not exp:
                    raise Violation("wrong-after-rejection", f"after a rejected map, substitute({e}, {good}) = {again}, expected {exp}", case)
            ctx.cls("illtyped-rejected")
            ctx.nontriv([case["expr"], case["subs"]])
            return
        except Exception as ex:
            raise Violation(f"exception:{type(ex).__name__}", f"substitute({e}, {subs}) raised {ex!r}", case)
        if not compatible:
            raise Violation("accepted-incompatible-map", f"substitute({e}, {subs}) accepted an ill-typed map and returned {got}", case)
        try:
            exp = ref_substitute(e, subs, em, fve)
        except UPTypeError:
            raise Abstain("reference-rebuild-ill-typed")
        if got is not exp:
            raise Violation("differs-from-top-down-reference", f"substitute({e}, {subs}) = {got}, reference top-down result {exp}", case)
        # a second, different call on the same environment-wide substituter (no stale results)
        if len(subs) >= 2:
            sub2 = dict(list(subs.items())[1:])
            try:
                got2 = e.substitute(sub2)
            except Exception as ex:
                raise Violation(f"exception-second-call:{type(ex).__name__}", f"{ex!r}", case)
            exp2 = ref_substitute(e, sub2, em, fve)
            if got2 is not exp2:
                raise Violation("second-call-differs", f"after substitute(e, {subs}), substitute({e}, {sub2}) = {got2}, expected {exp2}", case)
        # classification
        keys = list(subs)
        occurs = [k for k in keys if _occurs(e, k)]
        nested = any(k1 is not k2 and _occurs(k1, k2) for k1 in keys for k2 in keys)
        compound = any(k.args and not k.is_fluent_exp() for k in occurs)
        under_binder = any(_occurs_under_binder(e, k) for k in keys)
        val_has_key = any(_occurs(v, k) for v in subs.values() for k in keys)
        for name, flag in (("nested", nested), ("compound", compound), ("under_binder", under_binder), ("value_has_key", val_has_key), ("occurs", bool(occurs))):
            if flag:
                ctx.cls(name)
        # semantic check for leaf keys
        leaf = all(k.is_parameter_exp() or k.is_variable_exp() or (k.is_fluent_exp() and not k.args) for k in keys)
        if leaf:
            E = Evaluator(b.problem)
            bound_in_e = _bound_vars(e)
            if not any(tree_free_vars(v) & bound_in_e for v in subs.values()):
                for state, pb, vb in interpretations(b, case, [case["expr"], case["subs"]], 24):
                    try:
                        st2, pb2, vb2 = dict(state), dict(pb), dict(vb)
                        for k, v in subs.items():
                            val = E.ev(v, state, pb, vb)[0]
                            if k.is_parameter_exp():
                                pb2[k.parameter().name] = val
                            elif k.is_variable_exp():
                                vb2[(k.variable().name, k.variable().type)] = val
                            else:
                                st2[(k.fluent().name, ())] = val
                        a = E.ev(got, state, pb, vb)[0]
                        r = E.ev(e, st2, pb2, vb2)[0]
                    except Abstain:
                        continue
                    if a != r:
                        raise Violation("semantics-differ", f"substitute({e}, {subs}) = {got} evaluates to {a}, original under updated interpretation {r}", case)
                ctx.cls("semantic-checked")
        if occurs and (nested or compound or under_binder or val_has_key):
            ctx.nontriv([case["expr"], case["subs"]], {"expr": str(e), "subs": {str(k): str(v) for k, v in subs.items()}, "result": str(got)})

    return oracle


def _occurs(e, k):
    if e is k:
        return True
    return any(_occurs(a, k) for a in e.args)


def _bound_vars(e):
    out = set()
    if e.node_type in (OK.EXISTS, OK.FORALL):
        out |= set(e.variables())
    for a in e.args:
        out |= _bound_vars(a)
    return out


def _occurs_under_binder(e, k, bound=frozenset()):
    if e is k and (tree_free_vars(k) & bound):
        return True
    if e.node_type in (OK.EXISTS, OK.FORALL):
        bound = bound | set(e.variables())
    return any(_occurs_under_binder(a, k, bound) for a in e.args)


def shard(ctx):
    ctx.run_hypothesis(cases(), oracle_factory(ctx), ctx.scale(4000, 100000))


def replay(ctx, case):
    oracle_factory(ctx)(case)
