"""C37 — multi-agent compilers preserve each agent's action semantics."""

from __future__ import annotations

from itertools import product

from hypothesis import strategies as st

from harness.core import Abstain, HarnessError, Violation, case_hash

PROPERTY = "C37"
TECHNIQUE = "property-based testing with exhaustive state enumeration: every ground action of every agent is compared with its compiled variants in ALL total states, under a harness-side multi-agent reference semantics"
RULE = (
    "Generated MultiAgentProblems (2 agents, 1-2 private Boolean fluents each with 0-1 parameters, 1-2 public environment fluents, "
    "1-2 actions per agent with 0-1 parameters; preconditions over own fluents, environment fluents and Dot(other agent, fluent) "
    "with and / or / not / implies / iff; effects on own and environment fluents and on an int environment fluent (conditional assignments of different "
    "constants, conflicting when several conditions hold), conditional (ma_cerm) and with disjunctive conditions (ma_dcrm); goals over Dot(agent, fluent) and environment fluents, disjunctive for ma_dcrm), compiled with "
    "MAConditionalEffectsRemover or MADisjunctiveConditionsRemover (inside supports()).  For EVERY total state over the ground "
    "fluents (<= 2^10, otherwise 512 drawn states) and every agent / ground original action a: a is applicable iff some compiled "
    "variant with map_back = a is applicable (a no-op a may have no variant); every applicable variant yields a's successor on "
    "the original fluents and resets the auxiliary goal fluents; for ma_cerm at most one variant is applicable; original goals "
    "hold in s iff the compiled goals are reachable from s (auxiliary fluents false) through auxiliary actions (map_back None) "
    "only, and the same equivalence holds after any ordinary variant applied to a state in which the auxiliary goal markers are "
    "already set.  Non-trivial = (agent, action, state) triples where the action has >= 2 variants and is applicable; distinct by "
    "(problem, compiler, agent, action, state)."
)
SHARDS = {"quick": 8, "thorough": 16}

OBJS = ["o0", "o1"]


# ------------------------------------------------------------------ generator


class G:
    def __init__(self, draw):
        self.draw = draw

    def i(self, lo, hi):
        return self.draw(st.integers(lo, hi))

    def b(self, p=0.5):
        x = self.draw(st.integers(0, 9999))
        return (x * 7919 + 5000) % 10000 < int(p * 10000)

    def pick(self, xs):
        return xs[self.i(0, len(xs) - 1)]


@st.composite
def cases(draw):
    g = G(draw)
    comp = g.pick(["ma_cerm", "ma_dcrm"])
    env_fl = [{"name": f"e{k}", "arity": g.i(0, 1)} for k in range(g.i(1, 2))]
    agents = []
    for k in range(2):
        fl = [{"name": f"p{j}", "arity": g.i(0, 1)} for j in range(g.i(1, 2))]
        agents.append({"name": f"ag{k}", "fluents": fl, "actions": []})

    def atom(ai, params):
        """an atom readable inside an action of agent ai (ai None: top level)"""
        opts = ["env"]
        if ai is not None:
            opts += ["own", "own"]
        opts.append("dot")
        k = g.pick(opts)
        if k == "env":
            f = g.pick(env_fl)
            return ["efl", f["name"]] + args(f, params)
        if k == "own":
            f = g.pick(agents[ai]["fluents"])
            return ["afl", f["name"]] + args(f, params)
        other = g.i(0, 1) if ai is None else (1 - ai if g.b(0.8) else ai)
        f = g.pick(agents[other]["fluents"])
        return ["dot", agents[other]["name"], ["afl", f["name"]] + args(f, params)]

    def args(f, params):
        out = []
        for _ in range(f["arity"]):
            if params and g.b(0.6):
                out.append(["par", g.pick(params)])
            else:
                out.append(["obj", g.pick(OBJS)])
        return out

    def bexpr(ai, params, depth, disj):
        if depth == 0 or g.b(0.3):
            a = atom(ai, params)
            return ["not", a] if g.b(0.3) else a
        ops = ["and", "not"] + (["or", "or", "implies", "iff"] if disj else [])
        k = g.pick(ops)
        if k == "not":
            return ["not", bexpr(ai, params, depth - 1, disj)]
        if k in ("and", "or"):
            return [k] + [bexpr(ai, params, depth - 1, disj) for _ in range(g.i(2, 3))]
        return [k, bexpr(ai, params, depth - 1, disj), bexpr(ai, params, depth - 1, disj)]

    disj = comp == "ma_dcrm"
    has_int = g.b(0.5)
    for ai, ag in enumerate(agents):
        for j in range(g.i(1, 2)):
            params = ["x"] if g.b(0.5) else []
            pre = [bexpr(ai, params, g.i(0, 2), disj or g.b(0.3)) for _ in range(g.i(0, 2))]
            effs = []
            for _ in range(g.i(1, 3)):
                if g.b(0.65):
                    f = g.pick(ag["fluents"])
                    target = ["afl", f["name"]] + args(f, params)
                else:
                    f = g.pick(env_fl)
                    target = ["efl", f["name"]] + args(f, params)
                cond = None
                if g.b(0.6 if comp == "ma_cerm" else 0.3):
                    cond = bexpr(ai, params, g.i(0, 1), disj)
                effs.append({"fl": target, "val": g.b(0.55), "cond": cond})
            if has_int and g.b(0.5):
                # conditional assignments of DIFFERENT constants to one non-Boolean fluent: conflicting when
                # both conditions hold (the variant must then not exist / not be applicable)
                for val_ in ([1, 2] if g.b(0.7) else [g.i(0, 2)]):
                    effs.append({"fl": ["efl", "n"], "val": val_, "cond": bexpr(ai, params, g.i(0, 1), disj) if g.b(0.85) else None})
            ag["actions"].append({"name": f"act{j}", "params": params, "pre": pre, "eff": effs})
    goals = [bexpr(None, [], g.i(0, 2) if disj else g.i(0, 1), disj) for _ in range(g.i(0, 2))]
    return {"compiler": comp, "env_fluents": env_fl, "int_fluent": has_int, "agents": agents, "goals": goals, "state_seed": g.i(0, 10**6)}


# ------------------------------------------------------------------ builder


class Built:
    def __init__(self, case):
        from collections import OrderedDict

        from unified_planning.environment import Environment
        from unified_planning.model import Fluent, InstantaneousAction, Object
        from unified_planning.model.multi_agent import Agent, MultiAgentProblem

        self.env = Environment()
        self.em, tm = self.env.expression_manager, self.env.type_manager
        em = self.em
        self.T = tm.UserType("T")
        p = MultiAgentProblem("ma", self.env)
        self.problem = p
        self.objs = {n: p.add_object(n, self.T) for n in OBJS}
        self.env_fl = {}
        for f in case["env_fluents"]:
            sig = OrderedDict((f"a{k}", self.T) for k in range(f["arity"]))
            fl = Fluent(f["name"], tm.BoolType(), sig, self.env)
            p.ma_environment.add_fluent(fl, default_initial_value=False)
            self.env_fl[f["name"]] = fl
        if case.get("int_fluent"):
            fl = Fluent("n", tm.IntType(0, 2), environment=self.env)
            p.ma_environment.add_fluent(fl, default_initial_value=0)
            self.env_fl["n"] = fl
        self.agents = {}
        self.ag_fl = {}
        for ag in case["agents"]:
            a = Agent(ag["name"], p)
            self.agents[ag["name"]] = a
            for f in ag["fluents"]:
                sig = OrderedDict((f"a{k}", self.T) for k in range(f["arity"]))
                fl = Fluent(f["name"], tm.BoolType(), sig, self.env)
                a.add_fluent(fl, default_initial_value=False)
                self.ag_fl[(ag["name"], f["name"])] = fl
        for ag in case["agents"]:
            a = self.agents[ag["name"]]
            for ac in ag["actions"]:
                act = InstantaneousAction(ac["name"], OrderedDict((n, self.T) for n in ac["params"]), self.env)
                ps = {q.name: q for q in act.parameters}
                for c in ac["pre"]:
                    act.add_precondition(self.expr(c, ag["name"], ps))
                for e in ac["eff"]:
                    from unified_planning.exceptions import UPConflictingEffectsException

                    try:
                        act.add_effect(self.expr(e["fl"], ag["name"], ps), e["val"], self.expr(e["cond"], ag["name"], ps) if e["cond"] is not None else True)
                    except UPConflictingEffectsException:
                        pass
                a.add_action(act)
            p.add_agent(a)
        for gl in case["goals"]:
            p.add_goal(self.expr(gl, None, {}))

    def expr(self, e, agent, ps):
        em = self.em
        op = e[0]
        if op == "efl":
            return em.FluentExp(self.env_fl[e[1]], tuple(self.expr(a, agent, ps) for a in e[2:]))
        if op == "afl":
            return em.FluentExp(self.ag_fl[(agent, e[1])], tuple(self.expr(a, agent, ps) for a in e[2:]))
        if op == "dot":
            return em.Dot(self.agents[e[1]], self.expr(e[2], e[1], ps))
        if op == "par":
            return em.ParameterExp(ps[e[1]])
        if op == "obj":
            return em.ObjectExp(self.objs[e[1]])
        if op == "not":
            return em.Not(self.expr(e[1], agent, ps))
        if op == "and":
            return em.And([self.expr(a, agent, ps) for a in e[1:]])
        if op == "or":
            return em.Or([self.expr(a, agent, ps) for a in e[1:]])
        if op == "implies":
            return em.Implies(self.expr(e[1], agent, ps), self.expr(e[2], agent, ps))
        if op == "iff":
            return em.Iff(self.expr(e[1], agent, ps), self.expr(e[2], agent, ps))
        raise ValueError(op)


# ------------------------------------------------------------------ reference semantics


def owner_key(problem, agent, fluent, args):
    """ground key of a fluent read / written inside `agent` (None: top level)"""
    if agent is not None and fluent in agent.fluents:
        return (agent.name, fluent.name, tuple(args))
    return ("env", fluent.name, tuple(args))


def ev(problem, n, state, agent, pb):
    from unified_planning.model.operators import OperatorKind as OK

    nt = n.node_type
    if nt == OK.BOOL_CONSTANT:
        return bool(n.constant_value())
    if nt == OK.INT_CONSTANT:
        return int(n.constant_value())
    if nt == OK.OBJECT_EXP:
        return n.object().name
    if nt == OK.PARAM_EXP:
        return pb[n.parameter().name]
    if nt == OK.FLUENT_EXP:
        args = [ev(problem, a, state, agent, pb) for a in n.args]
        if agent is None and n.fluent() not in problem.ma_environment.fluents:
            # a bare agent-local fluent in a global goal (the compilers emit their auxiliary goal fluents this
            # way; the generator never does): it denotes the fluent of the agent(s) owning it, as in the factored
            # MA-PDDL the writer produces
            owners = [ag for ag in problem.agents if n.fluent() in ag.fluents]
            if not owners:
                raise HarnessError(f"reference: fluent {n.fluent().name} belongs to nobody")
            return all(state[(ag.name, n.fluent().name, tuple(args))] for ag in owners)
        k = owner_key(problem, agent, n.fluent(), args)
        if k not in state:
            raise HarnessError(f"reference: unknown ground fluent {k}")
        return state[k]
    if nt == OK.DOT:
        return ev(problem, n.arg(0), state, problem.agent(n.agent()) if isinstance(n.agent(), str) else n.agent(), pb)
    if nt == OK.NOT:
        return not ev(problem, n.arg(0), state, agent, pb)
    if nt == OK.AND:
        return all(ev(problem, a, state, agent, pb) for a in n.args)
    if nt == OK.OR:
        return any(ev(problem, a, state, agent, pb) for a in n.args)
    if nt == OK.IMPLIES:
        return (not ev(problem, n.arg(0), state, agent, pb)) or ev(problem, n.arg(1), state, agent, pb)
    if nt == OK.IFF:
        return ev(problem, n.arg(0), state, agent, pb) == ev(problem, n.arg(1), state, agent, pb)
    if nt == OK.EQUALS:
        return ev(problem, n.arg(0), state, agent, pb) == ev(problem, n.arg(1), state, agent, pb)
    raise Abstain(f"reference-unsupported-node:{nt.name}")


def apply(problem, agent, action, pb, state):
    """successor dict or None (inapplicable)"""
    for c in action.preconditions:
        if not ev(problem, c, state, agent, pb):
            return None
    writes = {}
    for e in action.effects:
        if not ev(problem, e.condition, state, agent, pb):
            continue
        args = [ev(problem, a, state, agent, pb) for a in e.fluent.args]
        k = owner_key(problem, agent, e.fluent.fluent(), args)
        v = ev(problem, e.value, state, agent, pb)
        if k in writes and writes[k] != v:
            if not isinstance(v, bool):
                return None  # two different values for one non-Boolean fluent: inapplicable
            v = True  # Boolean add-after-delete
        writes[k] = v
    succ = dict(state)
    succ.update(writes)
    return succ


def ground_keys(problem):
    keys = []
    objs = [o.name for o in problem.all_objects]
    for f in problem.ma_environment.fluents:
        for args in product(objs, repeat=f.arity):
            keys.append(("env", f.name, args))
    for ag in problem.agents:
        for f in ag.fluents:
            for args in product(objs, repeat=f.arity):
                keys.append((ag.name, f.name, args))
    return keys


def goals_hold(problem, state):
    return all(ev(problem, g, state, None, {}) for g in problem.goals)


# ------------------------------------------------------------------ oracle


def check(ctx, case):
    from unified_planning.engines import CompilationKind as CK
    from unified_planning.engines.compilers.ma_conditional_effects_remover import MAConditionalEffectsRemover
    from unified_planning.engines.compilers.ma_disjunctive_conditions_remover import MADisjunctiveConditionsRemover
    from unified_planning.plans import ActionInstance

    b = Built(case)
    p = b.problem
    cname = case["compiler"]
    cls, ck = (MAConditionalEffectsRemover, CK.CONDITIONAL_EFFECTS_REMOVING) if cname == "ma_cerm" else (MADisjunctiveConditionsRemover, CK.DISJUNCTIVE_CONDITIONS_REMOVING)
    if not cls.supports(p.kind):
        ctx.cls(f"unsupported:{cname}")
        raise Abstain("unsupported-kind")
    try:
        res = cls().compile(p, ck)
    except Exception as e:
        raise Violation(f"compile-exception:{cname}:{type(e).__name__}", f"{cname} raised {type(e).__name__}: {str(e)[:300]}", case)
    q = res.problem
    keys = ground_keys(p)
    qkeys = ground_keys(q)
    aux = [k for k in qkeys if k not in set(keys)]
    missing = [k for k in keys if k not in set(qkeys)]
    if missing:
        raise Violation(f"fluent-lost:{cname}", f"ground fluents {missing[:4]} have no counterpart in the compiled problem", case)
    # variants per (agent, original action)
    variants = {}
    auxiliary = []
    for ag in q.agents:
        for na in ag.actions:
            try:
                back = res.map_back_action_instance(ActionInstance(na, tuple(b.em.ObjectExp(b.objs[OBJS[0]]) for _ in na.parameters), agent=ag))
            except Exception as e:
                raise Violation(f"map-back-exception:{cname}:{type(e).__name__}", f"map_back of {ag.name}.{na.name} raised {e!r}", case)
            if back is None:
                auxiliary.append((ag, na))
            else:
                variants.setdefault((ag.name, back.action.name), []).append(na)
    n = len(keys)
    doms = [[0, 1, 2] if (k[0] == "env" and k[1] == "n") else [False, True] for k in keys]
    if n <= 10:
        states = [dict(zip(keys, vals)) for vals in product(*doms)]
    else:
        import random

        rnd = random.Random(case["state_seed"])  # the seed is a generated input
        states = [dict((k, rnd.choice(d)) for k, d in zip(keys, doms)) for _ in range(512)]
    objs = [o.name for o in p.all_objects]
    sh = case_hash({k: v for k, v in case.items() if k != "state_seed"})
    for s in states:
        qs = dict(s)
        for k in aux:
            qs[k] = False
        # goals
        g0 = goals_hold(p, s)

        def reach(start, full=False):
            """are the compiled goals reachable from `start` through auxiliary actions only?  (full: also
            return every state of that closure)"""
            seen, order = set(), []
            frontier = [start]
            hit = False
            while frontier:
                cur = frontier.pop()
                key = tuple(sorted(cur.items()))
                if key in seen:
                    continue
                seen.add(key)
                order.append(cur)
                if goals_hold(q, cur):
                    hit = True
                    if not full:
                        break
                for ag_, na in auxiliary:
                    for args_ in product(objs, repeat=len(na.parameters)):
                        s2 = apply(q, ag_, na, dict(zip((x.name for x in na.parameters), args_)), cur)
                        if s2 is not None:
                            frontier.append(s2)
            return hit, order

        g1, closure = reach(qs, full=bool(aux) and g0)
        ctx.evaluations += 1
        if aux and g0 and g1:
            # stale markers: after the auxiliary actions have marked the goal as reached, an ordinary action that
            # falsifies the original goals must also falsify the compiled ones
            for cur in closure:
                if not any(cur[k] for k in aux):
                    continue
                for ag in p.agents:
                    qag = q.agent(ag.name)
                    for a in ag.actions:
                        for v in variants.get((ag.name, a.name), []):
                            for args in product(objs, repeat=len(v.parameters)):
                                r = apply(q, qag, v, dict(zip((x.name for x in v.parameters), args)), cur)
                                if r is None:
                                    continue
                                ctx.evaluations += 1
                                orig_after = goals_hold(p, {k: r[k] for k in keys})
                                comp_after, _ = reach(r)
                                if orig_after != comp_after:
                                    raise Violation(
                                        f"goals-not-equivalent-after-marking:{cname}",
                                        f"state {fmt(s)}: after the auxiliary goal actions, {ag.name}.{v.name}{list(args)} leads to a state where the original goals "
                                        f"{'hold' if orig_after else 'do not hold'} but the compiled goals are {'reachable' if comp_after else 'not reachable'}",
                                        case,
                                    )
                ctx.cls("stale-marker-states")
        if g0 != g1:
            raise Violation(
                f"goals-not-equivalent:{cname}:{'original-holds' if g0 else 'compiled-holds'}",
                f"state {fmt(s)}: original goals {'hold' if g0 else 'do not hold'} but the compiled goals are {'reachable' if g1 else 'not reachable'} through auxiliary actions",
                case,
            )
        for ag in p.agents:
            qag = q.agent(ag.name)
            for a in ag.actions:
                vs = variants.get((ag.name, a.name), [])
                for args in product(objs, repeat=len(a.parameters)):
                    pb = dict(zip((x.name for x in a.parameters), args))
                    exp = apply(p, ag, a, pb, s)
                    got = []
                    for v in vs:
                        pbv = dict(zip((x.name for x in v.parameters), args))
                        r = apply(q, qag, v, pbv, qs)
                        if r is not None:
                            got.append((v, r))
                    ctx.evaluations += 1
                    desc = f"{ag.name}.{a.name}{list(args)} in {fmt(s)}"
                    if exp is None and got:
                        raise Violation(f"variant-applicable-original-not:{cname}", f"{desc}: the original is inapplicable but variant {got[0][0].name} is applicable", case)
                    if exp is not None and not got:
                        if exp == s:
                            ctx.abstain("noop-dropped")
                            continue
                        raise Violation(f"no-variant-applicable:{cname}", f"{desc}: the original is applicable (and changes the state) but none of its {len(vs)} variants is", case)
                    for v, r in got:
                        diff = [k for k in keys if r[k] != exp[k]]
                        if diff:
                            raise Violation(f"successor-differs:{cname}", f"{desc}: variant {v.name} gives {[(k, r[k]) for k in diff[:3]]}, the original gives {[(k, exp[k]) for k in diff[:3]]}", case)
                        if any(r[k] for k in aux):
                            raise Violation(f"aux-fluent-not-reset:{cname}", f"{desc}: variant {v.name} leaves an auxiliary goal fluent true", case)
                    if cname == "ma_cerm" and len(got) > 1:
                        raise Violation("several-variants-applicable:ma_cerm", f"{desc}: variants {[v.name for v, _ in got]} are all applicable", case)
                    if exp is not None and len(vs) >= 2:
                        ctx.nontriv(case_hash([sh, ag.name, a.name, list(args), fmt(s)]), {"compiler": cname, "action": f"{ag.name}.{a.name}", "variants": len(vs)})
    ctx.cls(f"compiled:{cname}")
    ctx.cls(f"states:{'all' if n <= 10 else 'sampled'}")
    if auxiliary:
        ctx.cls("auxiliary-goal-actions")


def fmt(s):
    return ",".join(f"{'.'.join([k[0], k[1]])}{list(k[2]) if k[2] else ''}" for k, v in sorted(s.items()) if v) or "(all false)"


def shard(ctx):
    def oracle(case):
        ctx.evaluations -= 1
        check(ctx, case)

    ctx.run_hypothesis(cases(), oracle, ctx.scale(800, 12000))


def replay(ctx, case):
    check(ctx, case)
