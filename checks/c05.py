"""C05 — time-triggered validation matches the reference temporal semantics."""

from __future__ import annotations

from fractions import Fraction

from hypothesis import strategies as st

from harness import gen
from harness.build import build
from harness.core import Abstain, HarnessError, Violation
from harness.reftt import RefTT
from harness.simcmp import params_fnodes

PROPERTY = "C05"
TECHNIQUE = "property-based differential of TimeTriggeredPlanValidator against an executable reference temporal semantics (harness/reftt.py)"
RULE = (
    "Temporal problems: 1-2 durative actions (+ optional instantaneous one) with fixed / interval durations in all four "
    "openness combinations and constant / parameter- / fluent-dependent bounds, conditions at start / end / over-all / "
    "intermediate [start+d1, end-d2] with open or closed ends, effects at start / end / start+d / end-d, timed effects and "
    "timed goals (closed / left-open / up to the end).  Plans: 1-4 timed instances with start times on a half-integer grid in "
    "[0,6] (coinciding happenings are common) and durations biased to lower / upper / just inside / just outside / exactly on "
    "an open end.  Oracle: status VALID iff reftt accepts.  Non-trivial = plan with a durative action and a duration on or "
    "next to a bound, two instances sharing an instant, a condition at an instant that has effects, a happening strictly "
    "inside a condition interval, a left-open interval with no happening at its left end, or a timed effect / goal; distinct "
    "by (problem, plan)."
)
SHARDS = {"quick": 8, "thorough": 16}


@st.composite
def cases(draw):
    g = gen.TGen(draw, gen.TEMPORAL)
    p = g.temporal_problem()
    plans = []
    for _ in range(g.i(1, 3)):
        steps = []
        for _ in range(g.i(1, 4)):
            steps.append({"a": g.i(0, 10), "args": g.i(0, 20), "start": g.pick([0, 0, "1/2", 1, "3/2", 2, 3, 4, "5/2"]), "dmode": g.i(0, 6), "dgrid": g.pick(["1/2", 1, "3/2", 2, 3, "5/2", 4])})
        plans.append(steps)
    return {"problem": p, "plans": plans}


def duration_for(b, ref, action, args, step):
    """choose a duration biased to the interesting points of the action's interval"""
    di = action.duration
    pb = ref.sim.binding(action, args)
    s0 = ref.sim.initial_state()
    try:
        lo, hi = ref.E.value(di.lower, s0, pb, {}), ref.E.value(di.upper, s0, pb, {})
    except Abstain:
        lo = hi = None
    m = step["dmode"]
    if lo is None or hi is None or not isinstance(lo, Fraction) or not isinstance(hi, Fraction):
        return Fraction(step["dgrid"])
    eps = Fraction(1, 2)
    cands = [lo, hi, (lo + hi) / 2, lo - eps, hi + eps, lo + Fraction(1, 4), Fraction(step["dgrid"])]
    d = cands[m % len(cands)]
    return d if d > 0 else lo if lo > 0 else Fraction(1)


def check(ctx, case):
    from unified_planning.engines import ValidationResultStatus
    from unified_planning.engines.plan_validator import TimeTriggeredPlanValidator
    from unified_planning.model import DurativeAction
    from unified_planning.plans import ActionInstance, TimeTriggeredPlan

    b = build(case["problem"])
    problem, em = b.problem, b.em
    if not TimeTriggeredPlanValidator.supports(problem.kind):
        raise HarnessError(f"profile left the supported kind: {problem.kind.features - TimeTriggeredPlanValidator.supported_kind().features}")
    ref = RefTT(problem)
    ttv = TimeTriggeredPlanValidator(environment=b.env)
    insts = [(a, args) for a in problem.actions for args in ref.sim.instances(a)]
    if not insts:
        return
    for steps in case["plans"]:
        plan = []
        for st_ in steps:
            a, args = insts[(st_["a"] * 7 + st_["args"]) % len(insts)]
            start = Fraction(st_["start"])
            dur = duration_for(b, ref, a, args, st_) if isinstance(a, DurativeAction) else None
            plan.append((start, a, args, dur))
        desc = [[str(s), a.name, list(map(str, args)), None if d is None else str(d)] for s, a, args, d in plan]
        try:
            valid, why = ref.validate(plan)
        except Abstain as ab:
            ctx.abstain(ab.reason)
            continue
        info = dict(ref.info)
        ctx.evaluations += 1
        up_plan = TimeTriggeredPlan([(s, ActionInstance(a, params_fnodes(problem, em, a, args)), d) for s, a, args, d in plan], b.env)
        try:
            res = ttv.validate(problem, up_plan)
        except Exception as e:
            raise Violation(f"validate-exception:{type(e).__name__}", f"{e!r} on plan {desc} (reference: {why})", case, {"plan": desc})
        up_valid = res.status == ValidationResultStatus.VALID
        flags = sorted(k for k, v in info.items() if v)
        if up_valid != valid:
            raise Violation(
                f"verdict-differs:{'up-valid' if up_valid else 'up-invalid'}:{why}",
                f"plan {desc}: validator {res.status.name} ({res.reason}), reference {'VALID' if valid else 'INVALID: ' + why}; flags {flags}",
                case,
                {"plan": desc},
            )
        ctx.cls("valid" if valid else "invalid:" + why)
        for f in flags:
            ctx.cls(f)
        has_dur = any(d is not None for _, _, _, d in plan)
        if has_dur and (flags or problem.timed_effects or problem.timed_goals):
            ctx.nontriv([spec_hash(case["problem"]), desc])


def spec_hash(spec):
    from harness.core import case_hash

    return case_hash(spec)


def shard(ctx):
    def oracle(case):
        ctx.evaluations -= 1
        check(ctx, case)

    ctx.run_hypothesis(cases(), oracle, ctx.scale(3200, 60000))


def replay(ctx, case):
    check(ctx, case)
