#!/venv/bin/python
"""Entry point:  run.py <ID> --tier quick|thorough [--replay file] [--shards n]

Re-executes itself with PYTHONHASHSEED=0 so that every run is a pure function of
/repo's working tree and VERIF_SEED.
"""
import argparse
import os
import sys

ROOT = os.path.dirname(os.path.abspath(__file__))


def main():
    if os.environ.get("PYTHONHASHSEED") != "0":
        env = dict(os.environ)
        env["PYTHONHASHSEED"] = "0"
        env.setdefault("PYTHONWARNINGS", "ignore")
        os.execve(sys.executable, [sys.executable] + sys.argv, env)
    sys.path.insert(0, ROOT)
    os.chdir(ROOT)
    ap = argparse.ArgumentParser()
    ap.add_argument("prop")
    ap.add_argument("--tier", default=os.environ.get("VERIF_TIER", "quick"), choices=["quick", "thorough"])
    ap.add_argument("--replay", default=None)
    ap.add_argument("--shards", type=int, default=None)
    ap.add_argument("--seed", type=int, default=None)
    a = ap.parse_args()
    seed = a.seed if a.seed is not None else int(os.environ.get("VERIF_SEED", "1") or 1)
    import warnings

    warnings.simplefilter("ignore")
    sys.setrecursionlimit(10000)
    from harness.core import main_run

    try:
        rc = main_run(a.prop.upper(), a.tier, seed, a.replay, a.shards)
    except Exception:
        import traceback

        traceback.print_exc()
        print(f"HARNESS-ERROR property={a.prop}")
        rc = 2
    sys.stdout.flush()
    sys.exit(rc)


if __name__ == "__main__":
    main()
