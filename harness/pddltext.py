"""A small PDDL emitter (spec -> domain / problem text) with stylistic variations the UP
writer never produces: grouped typed lists, :constants, numbers on the left of comparisons,
comments, mixed-case identifiers."""

from __future__ import annotations

from fractions import Fraction


class Emitter:
    def __init__(self, spec, style):
        self.s = spec
        self.style = style  # dict of switches
        self.ftype = {f["name"]: f["type"] for f in spec["fluents"]}
        used = set()

        def walk(e):
            if isinstance(e, list) and e:
                if e[0] == "obj":
                    used.add(e[1])
                for x in e[1:]:
                    walk(x)

        for a in spec["actions"]:
            for p in a["pre"]:
                walk(p)
            for ef in a["eff"]:
                walk(ef["fl"])
                walk(ef["val"])
                walk(ef.get("cond"))
        extra = [o for o, _ in spec["objects"]][: style.get("n_constants", 0)]
        # objects mentioned in the domain must be declared as :constants
        self.const_names = [o for o, _ in spec["objects"] if o in used or o in extra]

    def nm(self, n):
        if self.style.get("mixed_case") and len(n) > 1:
            return n[0].upper() + n[1:]
        return n

    def num(self, x):
        f = Fraction(str(x))
        if f < 0:
            # the AI-planning grammar has no negative literals
            return f"(- 0 {self.num(-f)})"
        if f.denominator == 1:
            return str(f.numerator)
        return repr(float(f))

    def expr(self, e):
        op = e[0]
        if op == "b":
            raise ValueError("constant boolean")
        if op in ("i", "r"):
            return self.num(e[1])
        if op == "obj":
            return self.nm(e[1])
        if op == "par":
            return "?" + e[1]
        if op == "var":
            return "?" + e[1]
        if op == "fl":
            return "(" + " ".join([self.nm(e[1])] + [self.expr(a) for a in e[2:]]) + ")"
        if op in ("and", "or"):
            return f"({op} " + " ".join(self.expr(a) for a in e[1:]) + ")"
        if op == "not":
            return f"(not {self.expr(e[1])})"
        if op == "implies":
            return f"(imply {self.expr(e[1])} {self.expr(e[2])})"
        if op == "iff":
            a, b = self.expr(e[1]), self.expr(e[2])
            return f"(and (imply {a} {b}) (imply {b} {a}))"
        if op in ("exists", "forall"):
            vs = " ".join(f"?{n} - {self.nm(t[1])}" for n, t in e[1])
            return f"({op} ({vs}) {self.expr(e[2])})"
        if op in ("+", "*"):
            args = [self.expr(a) for a in e[1:]]
            out = args[0]
            for a in args[1:]:
                out = f"({op} {out} {a})"
            return out
        if op in ("-", "/"):
            return f"({op} {self.expr(e[1])} {self.expr(e[2])})"
        if op in ("<=", "<", ">=", ">", "="):
            a, b = e[1], e[2]
            return f"({op} {self.expr(a)} {self.expr(b)})"
        raise ValueError(op)

    def typed_list(self, pairs, prefix=""):
        """pairs: [(name, type)]"""
        if self.style.get("group_typed_lists"):
            out, i = [], 0
            while i < len(pairs):
                j = i
                while j + 1 < len(pairs) and pairs[j + 1][1] == pairs[i][1]:
                    j += 1
                out.append(" ".join(prefix + self.nm(n) if not prefix else prefix + n for n, _ in pairs[i : j + 1]) + " - " + self.nm(pairs[i][1]))
                i = j + 1
            return " ".join(out)
        return " ".join(f"{prefix + (n if prefix else self.nm(n))} - {self.nm(t)}" for n, t in pairs)

    def effect(self, ef):
        t = self.ftype[ef["fl"][1]]
        target = self.expr(ef["fl"])
        if t == "bool":
            body = target if ef["val"][1] else f"(not {target})"
        else:
            kw = {"assign": "assign", "inc": "increase", "dec": "decrease"}[ef["kind"]]
            body = f"({kw} {target} {self.expr(ef['val'])})"
        if ef.get("cond") is not None:
            body = f"(when {self.expr(ef['cond'])} {body})"
        if ef.get("forall"):
            vs = " ".join(f"?{n} - {self.nm(t_[1])}" for n, t_ in ef["forall"])
            body = f"(forall ({vs}) {body})"
        return body

    def domain(self):
        s = self.s
        out = ["(define (domain dom)"]
        if self.style.get("comments"):
            out.append("; a generated domain")
        costs = s.get("costs")  # {action name: int or None}: the :action-costs idiom
        out.append(" (:requirements :adl :typing :numeric-fluents :fluents" + (" :action-costs" if costs is not None else "") + ")")
        types = []
        for tn, par in s["types"]:
            types.append((tn, par if par else "object"))
        out.append(" (:types " + self.typed_list(types) + ")")
        consts = [(o, t) for o, t in s["objects"] if o in self.const_names]
        if consts:
            out.append(" (:constants " + self.typed_list([(o, t) for o, t in consts]) + ")")
        preds, funcs = [], []
        for f in s["fluents"]:
            sig = self.typed_list([(n, t[1]) for n, t in f["params"]], prefix="?")
            item = f"({self.nm(f['name'])}{' ' + sig if sig else ''})"
            (preds if f["type"] == "bool" else funcs).append(item)
        out.append(" (:predicates " + " ".join(preds) + ")")
        if costs is not None:
            funcs.append("(total-cost)")
        if funcs:
            out.append(" (:functions " + " ".join(funcs) + ")")
        for a in s["actions"]:
            out.append(f" (:action {self.nm(a['name'])}")
            out.append("  :parameters (" + self.typed_list([(n, t[1]) for n, t in a["params"]], prefix="?") + ")")
            if a["pre"] or not self.style.get("omit_empty_precondition"):
                out.append("  :precondition (and " + " ".join(self.expr(p) for p in a["pre"]) + ")")
            if self.style.get("comments"):
                out.append("  ; effects follow")
            effs = [self.effect(e) for e in a["eff"]]
            if costs is not None and costs.get(a["name"]) is not None:
                effs.append(f"(increase (total-cost) {costs[a['name']]})")
            out.append("  :effect (and " + " ".join(effs) + "))")
        out.append(")")
        return "\n".join(out)

    def problem(self):
        s = self.s
        out = ["(define (problem prob) (:domain dom)"]
        objs = [(o, t) for o, t in s["objects"] if o not in self.const_names]
        out.append(" (:objects " + self.typed_list([(o, t) for o, t in objs]) + ")")
        init = []
        explicit = {repr(k): v for k, v in s["init"]}
        from itertools import product

        def objs_of(tn):
            subs = [tn]
            ch = True
            while ch:
                ch = False
                for n, par in s["types"]:
                    if par in subs and n not in subs:
                        subs.append(n)
                        ch = True
            return [o for o, t in s["objects"] if t in subs]

        for f in s["fluents"]:
            doms = [objs_of(t[1]) for _, t in f["params"]]
            for combo in product(*doms):
                key = ["fl", f["name"]] + [["obj", o] for o in combo]
                v = explicit.get(repr(key), f["default"])
                if v is None:
                    continue
                atom = self.expr(key)
                if f["type"] == "bool":
                    if v[1]:
                        init.append(atom)
                else:
                    init.append(f"(= {atom} {self.num(v[1])})")
        if s.get("costs") is not None:
            init.append("(= (total-cost) 0)")
        out.append(" (:init " + " ".join(init) + ")")
        out.append(" (:goal (and " + " ".join(self.expr(g) for g in s["goals"]) + "))")
        if s.get("costs") is not None:
            out.append(" (:metric minimize (total-cost))")
        out.append(")")
        return "\n".join(out)
