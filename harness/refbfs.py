"""An exact breadth-first planner on top of the reference simulator, registered as a unified_planning engine
(`refbfs`) so that the meta-engines of C31 can be wrapped around it.  It returns only plans the reference
semantics accepts and says UNSOLVABLE_PROVEN only after exhausting the reachable state space; when it cannot
be exact (state cap, a situation the reference abstains on) it says UNSOLVABLE_INCOMPLETELY."""

from __future__ import annotations

import unified_planning as up
from unified_planning.engines import Engine, PlanGenerationResult, PlanGenerationResultStatus
from unified_planning.engines.mixins import OneshotPlannerMixin
from unified_planning.model import ProblemKind

MAX_STATES = 4000
STATS = {"calls": 0, "incomplete": 0}


class RefBFSPlanner(Engine, OneshotPlannerMixin):
    def __init__(self, **options):
        Engine.__init__(self)
        OneshotPlannerMixin.__init__(self)

    @property
    def name(self) -> str:
        return "refbfs"

    @staticmethod
    def supported_kind() -> ProblemKind:
        from unified_planning.engines.sequential_simulator import UPSequentialSimulator

        # everything the sequential simulator accepts (instantaneous, classical / numeric), minus what the
        # reference simulator does not model
        k = UPSequentialSimulator.supported_kind().clone()
        return k

    @staticmethod
    def supports(problem_kind: ProblemKind) -> bool:
        return problem_kind <= RefBFSPlanner.supported_kind()

    @staticmethod
    def satisfies(optimality_guarantee) -> bool:
        return True  # breadth first: shortest plans

    def _solve(self, problem, heuristic=None, timeout=None, output_stream=None):
        from harness.core import Abstain
        from harness.refsim import RefSim, freeze
        from harness.simcmp import params_fnodes
        from unified_planning.plans import ActionInstance, SequentialPlan

        STATS["calls"] += 1
        ref = RefSim(problem)
        em = problem.environment.expression_manager
        try:
            s0 = ref.initial_state()
            if ref.state_ok(s0) is not None:
                return PlanGenerationResult(PlanGenerationResultStatus.UNSOLVABLE_PROVEN, None, self.name)
            instances = [(a, args) for a in problem.actions for args in ref.instances(a)]
            seen = {freeze(s0): None}
            frontier = [s0]
            goal_state = s0 if ref.goal(s0) else None
            parent = {freeze(s0): None}
            complete = True
            while frontier and goal_state is None:
                nxt = []
                for s in frontier:
                    for a, args in instances:
                        s2, _ = ref.try_apply(s, a, args)
                        if s2 is None:
                            continue
                        k = freeze(s2)
                        if k in parent:
                            continue
                        parent[k] = (freeze(s), a, args)
                        if ref.goal(s2):
                            goal_state = s2
                            break
                        if len(parent) >= MAX_STATES:
                            complete = False
                            continue
                        nxt.append(s2)
                    if goal_state is not None:
                        break
                frontier = nxt
        except Abstain:
            STATS["incomplete"] += 1
            return PlanGenerationResult(PlanGenerationResultStatus.UNSOLVABLE_INCOMPLETELY, None, self.name)
        if goal_state is None:
            if not complete:
                STATS["incomplete"] += 1
            return PlanGenerationResult(
                PlanGenerationResultStatus.UNSOLVABLE_PROVEN if complete else PlanGenerationResultStatus.UNSOLVABLE_INCOMPLETELY, None, self.name
            )
        steps = []
        k = freeze(goal_state)
        while parent[k] is not None:
            pk, a, args = parent[k]
            steps.append((a, args))
            k = pk
        steps.reverse()
        plan = SequentialPlan([ActionInstance(a, params_fnodes(problem, em, a, args)) for a, args in steps], problem.environment)
        return PlanGenerationResult(PlanGenerationResultStatus.SOLVED_SATISFICING, plan, self.name)


def register(env):
    if "refbfs" not in env.factory.engines:
        env.factory.add_engine("refbfs", "harness.refbfs", "RefBFSPlanner")
