"""Reference temporal (time-triggered) semantics — the executable form of C05 (DESIGN 2.5).

Input: UP problem + list of (start, action, args, duration|None).  Exact Fractions.
Reads model objects through accessors only; evaluation through refsim.Evaluator.
"""

from __future__ import annotations

from fractions import Fraction
from typing import Any, Dict, List, Optional, Tuple

from unified_planning.model.timing import TimepointKind

from .core import Abstain
from .refsim import UNDEF, Evaluator, RefSim, initial_state, type_objects


class Invalid(Exception):
    def __init__(self, reason):
        super().__init__(reason)
        self.reason = reason


def inst_time(timing, start: Fraction, dur: Optional[Fraction]) -> Optional[Fraction]:
    k = timing.timepoint.kind
    d = Fraction(timing.delay)
    if k == TimepointKind.START:
        return start + d
    if k == TimepointKind.END:
        return start + dur + d
    if k == TimepointKind.GLOBAL_START:
        return d
    if k == TimepointKind.GLOBAL_END:
        return None  # plan end: unbounded to the right for our purposes
    raise Abstain("unknown-timepoint")


class RefTT:
    def __init__(self, problem, check_state_constraints=False):
        self.problem = problem
        self.sim = RefSim(problem, check_bounds=check_state_constraints, check_invariants=check_state_constraints)
        self.E = self.sim.E
        self.check_state_constraints = check_state_constraints
        self.info: Dict[str, Any] = {}

    def validate(self, plan) -> Tuple[bool, str]:
        """plan: list of (start, action, args, duration).  Returns (valid, reason)."""
        try:
            self._validate(plan)
            return True, "valid"
        except Invalid as i:
            return False, i.reason

    def _validate(self, plan):
        from unified_planning.model import DurativeAction

        problem, E = self.problem, self.E
        info = self.info = {}
        effects = []  # (time, instance id, effect, binding)
        conds = []  # (a, b|None, left_open, expr, binding, label)
        durchecks = []
        for idx, (start, action, args, dur) in enumerate(plan):
            start = Fraction(start)
            pb = self.sim.binding(action, args)
            if isinstance(action, DurativeAction):
                if dur is None:
                    raise Abstain("durative-without-duration")
                dur = Fraction(dur)
                durchecks.append((start, action, pb, dur, idx))
                for timing, effs in action.effects.items():
                    t = inst_time(timing, start, dur)
                    if t is None:
                        raise Abstain("global-end-effect")
                    for e in effs:
                        effects.append((t, idx, e, pb))
                for interval, cs in action.conditions.items():
                    a = inst_time(interval.lower, start, dur)
                    b = inst_time(interval.upper, start, dur)
                    for c in cs:
                        conds.append((a, b, interval.is_left_open(), c, pb, f"cond#{idx}"))
            else:
                if dur is not None and Fraction(dur) != 0:
                    raise Abstain("instantaneous-with-duration")
                for e in action.effects:
                    effects.append((start, idx, e, pb))
                for c in action.preconditions:
                    conds.append((start, start, False, c, pb, f"pre#{idx}"))
        for timing, effs in problem.timed_effects.items():
            t = inst_time(timing, Fraction(0), None)
            if t is None:
                raise Abstain("global-end-effect")
            for e in effs:
                effects.append((t, -1, e, {}))
        for interval, goals in problem.timed_goals.items():
            a = inst_time(interval.lower, Fraction(0), None)
            b = inst_time(interval.upper, Fraction(0), None)
            if a is None:
                raise Abstain("timed-goal-from-global-end")
            for g in goals:
                conds.append((a, b, interval.is_left_open(), g, {}, "timed-goal"))
        if any(t < 0 for t, *_ in effects) or any(a < 0 or (b is not None and b < 0) for a, b, *_ in conds):
            raise Abstain("negative-time")
        if any(b is not None and a > b for a, b, *_ in conds):
            raise Abstain("inverted-interval")

        # ---- build the trace
        times = sorted({t for t, *_ in effects})
        states = [initial_state(problem)]  # states[k] = state after happening k-1
        for t in times:
            now = [(i, e, pb) for (tt, i, e, pb) in effects if tt == t]
            states.append(self._apply_happening(states[-1], now, t))
        if self.check_state_constraints:
            for s in states[1:]:
                why = self.sim.state_ok(s)
                if why is not None:
                    raise Invalid("state-" + why)

        def state_index_before(t):  # index into states of the state in force just before t
            return sum(1 for x in times if x < t)

        # ---- durations
        for start, action, pb, dur, idx in durchecks:
            s = states[state_index_before(start)]
            di = action.duration
            lo = E.value(di.lower, s, pb, {})
            hi = E.value(di.upper, s, pb, {})
            if lo is UNDEF or hi is UNDEF:
                raise Invalid("duration-bound-undefined")
            if dur == lo or dur == hi:
                info["duration_on_bound"] = True
            if dur == lo and di.is_left_open() or dur == hi and di.is_right_open():
                info["duration_on_open_bound"] = True
            ok_lo = dur > lo if di.is_left_open() else dur >= lo
            ok_hi = dur < hi if di.is_right_open() else dur <= hi
            if not (ok_lo and ok_hi):
                raise Invalid("duration")
        # ---- conditions
        for a, b, lopen, c, pb, label in conds:
            idxs = []
            k0 = state_index_before(a)
            happening_at_a = a in times
            if not lopen:
                idxs.append(k0)
            if b is None or a < b:
                if happening_at_a:
                    idxs.append(k0 + 1)
                    info["condition_at_instant_with_effects"] = True
                elif lopen:
                    idxs.append(k0)  # state in force just after a
                    info["left_open_no_happening_at_start"] = True
                for j, x in enumerate(times):
                    if x > a and (b is None or x < b):
                        idxs.append(j + 1)
                        info["happening_inside_interval"] = True
            elif happening_at_a and not lopen:
                info["condition_at_instant_with_effects"] = True
            for k in idxs:
                if not E.holds(c, states[k], pb, {}):
                    raise Invalid("timed-goal" if label == "timed-goal" else "condition")
        # ---- goals
        for g in problem.goals:
            if not E.holds(g, states[-1], {}, {}):
                raise Invalid("goal")
        self.states = states
        self.times = times

    def _apply_happening(self, state, now, t):
        """all effects of one instant, evaluated in ``state``, applied together."""
        E, sim, info = self.E, self.sim, self.info
        assigns: Dict[Any, List[Tuple[int, Any]]] = {}
        deltas: Dict[Any, List[Fraction]] = {}
        for inst, eff, pb in now:
            for vb in sim.expand(eff):
                targs = []
                for a in eff.fluent.args:
                    v = E.value(a, state, pb, vb)
                    if v is UNDEF:
                        raise Invalid("effect-undefined")
                    targs.append(v)
                key = (eff.fluent.fluent().name, tuple(targs))
                if eff.is_conditional():
                    cv = E.value(eff.condition, state, pb, vb)
                    if cv is UNDEF:
                        raise Invalid("effect-undefined")
                    if cv is not True:
                        continue
                val = E.value(eff.value, state, pb, vb)
                if val is UNDEF:
                    raise Invalid("effect-undefined")
                if eff.is_assignment():
                    assigns.setdefault(key, []).append((inst, val))
                elif eff.is_increase():
                    deltas.setdefault(key, []).append(val)
                elif eff.is_decrease():
                    deltas.setdefault(key, []).append(-val)
                else:
                    raise Abstain("continuous-effect")
        succ = dict(state)
        if len({i for i, _, _ in now}) > 1:
            info["coinciding_instances"] = True
        for key, lst in assigns.items():
            if key in deltas:
                raise Abstain("assign+incdec")
            insts = {i for i, _ in lst}
            vals = {v for _, v in lst}
            if len(insts) > 1:
                if len(vals) == 1:
                    raise Abstain("simultaneous-equal-writes")
                info["conflict"] = True
                raise Invalid("conflict")
            t_ = sim.ftype[key[0]]
            if t_.is_bool_type():
                succ[key] = True if True in vals else False
            else:
                if len(vals) > 1:
                    info["conflict"] = True
                    raise Invalid("conflict")
                succ[key] = lst[0][1]
        for key, ds in deltas.items():
            cur = state.get(key, UNDEF)
            if cur is UNDEF:
                raise Invalid("effect-undefined")
            succ[key] = cur + sum(ds, Fraction(0))
        return succ
