"""Hypothesis strategies producing problem / expression *specs* (see build.py).

One compositional grammar restricted by a Profile so generated problems stay inside
the documented input domain of the code under test, by construction (no assume()).
"""

from __future__ import annotations

from fractions import Fraction
from typing import Any, Dict, List, Optional, Tuple

from hypothesis import strategies as st


class Profile:
    """Feature switches / weights of the grammar."""

    def __init__(self, **kw):
        self.hierarchy = True
        self.max_types = 3  # chains of three make "objects of a grandchild type" possible
        self.max_objects = 4
        self.max_fluents = 4
        self.fluent_kinds = ["bool", "bool", "int", "real", "obj"]
        self.max_arity = 2
        self.bounded = True  # numeric fluents may carry bounds
        self.undefined = True  # fluents may have no initial value
        self.undefined_bool = True
        self.quantifiers = True
        self.disjunction = True
        self.negation = True
        self.equality = True
        self.implies_iff = True
        self.numeric_cmp = True
        self.arith = True  # + - * in numeric expressions
        self.division = True
        self.ifuns = False
        self.cond_effects = True
        self.forall_effects = True
        self.incdec = True
        self.fluent_values = True  # effect values may read fluents
        self.nested_fluent_args = True  # fluent args may be object fluents
        self.invariants = True
        self.traj = False
        self.max_actions = 3
        self.max_params = 2
        self.max_pre = 2
        self.max_eff = 3
        self.max_goals = 2
        self.max_depth = 3
        self.real_consts = True
        self.big_consts = False
        self.names = None  # optional name pool (adversarial identifiers)
        self.int_params = False  # bounded-int action parameters
        self.bool_fluent_params = False
        self.effect_same_fluent_bias = True
        self.always_defined_numeric = False
        self.const_atoms = False  # constant-only comparison atoms (1 <= 2)
        self.exists_eq_bias = False  # exists x. (x == term and ...) shapes
        self.temporal_delays = True  # intermediate timings / intervals
        self.timed_items = True  # timed effects and timed goals
        self.fixed_durations_only = False
        self.dur_fluents_grow = True
        self.decimal_only = False  # only rationals with finite decimal expansions
        self.bounded_p = None  # probability that a numeric fluent type carries bounds (None: 0.6 int / 0.5 real)
        self.zero_bound_p = 0.25  # ... that a bounded type has 0 as an endpoint
        self.self_update_p = 0.25  # ... that a numeric assignment is  f := f +/- c
        self.neg_quant_bias = False  # negations sit directly on quantifiers, and a problem uses ONE quantifier kind
        self.static_p = 0.0  # probability that a fluent with parameters is static (never an effect target)
        self.rational_divisors = False
        self.param_name_pool = None  # names for action parameters AND (half of the) bound variables: capture-prone
        for k, v in kw.items():
            if not hasattr(self, k):
                raise AttributeError(k)
            setattr(self, k, v)


SEQ_FULL = Profile(ifuns=True)


class Gen:
    def __init__(self, draw, prof: Profile):
        self.draw = draw
        self.p = prof
        self.types: List[Tuple[str, Optional[str]]] = []
        self.objects: List[Tuple[str, str]] = []
        self.fluents: List[dict] = []
        self.ifuns: List[dict] = []
        self._names_used = set()
        self._quant_kind = None
        self._names_by_prefix: Dict[str, List[str]] = {}

    # ------------------------------------------------------------ basic draws
    def i(self, lo, hi):
        return self.draw(st.integers(lo, hi))

    def b(self, p_true=0.5):
        # Bernoulli(p_true).  Hypothesis re-uses small values from other draws, which would
        # inflate (or deflate) a plain threshold test; scrambling the drawn integer keeps the
        # rate calibrated while the draw still shrinks (0 -> 5000 -> False for p <= 0.5).
        x = self.draw(st.integers(0, 9999))
        return (x * 7919 + 5000) % 10000 < int(p_true * 10000)

    def pick(self, xs):
        return xs[self.i(0, len(xs) - 1)]

    def name(self, prefix):
        if self.p.names and self.b(0.25):
            # a name shaped like the names compilers derive from an existing item of the same sort
            # (a -> a_0, a_1, a_0_0; f -> not_f): the classic fresh-name collision
            olds = self._names_by_prefix.get(prefix, [])
            if olds:
                base = self.pick(olds)
                n = self.pick([f"{base}_0", f"{base}_0", f"{base}_0", f"{base}_1", f"{base}_0_0", f"not_{base}", f"{base}_{base}"])
                if n not in self._names_used:
                    self._names_used.add(n)
                    self._names_by_prefix.setdefault(prefix, []).append(n)
                    return n
        n = self._name(prefix)
        self._names_by_prefix.setdefault(prefix, []).append(n)
        return n

    def _name(self, prefix):
        if self.p.names:
            pool = self.p.names
            if isinstance(pool, dict):
                pool = pool.get(prefix, pool["*"])
            for _ in range(20):
                n = self.pick(pool)
                if n not in self._names_used:
                    self._names_used.add(n)
                    return n
        k = 0
        while f"{prefix}{k}" in self._names_used:
            k += 1
        n = f"{prefix}{k}"
        self._names_used.add(n)
        return n

    # ------------------------------------------------------------ signature
    def subtypes(self, tname) -> List[str]:
        out = [tname]
        changed = True
        while changed:
            changed = False
            for n, par in self.types:
                if par in out and n not in out:
                    out.append(n)
                    changed = True
        return out

    def objs_of(self, tname) -> List[str]:
        subs = self.subtypes(tname)
        return [o for o, t in self.objects if t in subs]

    def gen_types(self):
        n = self.i(1, self.p.max_types)
        for k in range(n):
            parent = None
            if k > 0 and self.p.hierarchy and self.b(0.6):
                parent = self.types[self.i(0, k - 1)][0]
            self.types.append((self.name("T"), parent))
        for tn, _ in self.types:
            self.objects.append((self.name("o"), tn))
        while len(self.objects) < self.p.max_objects and self.b(0.5):
            self.objects.append((self.name("o"), self.pick(self.types)[0]))

    def num_type(self, kind, allow_unbounded=True):
        if kind == "int":
            if self.p.bounded and self.b(0.6 if self.p.bounded_p is None else self.p.bounded_p):
                lo = self.i(-2, 1)
                hi = lo + self.i(1, 5)
                if self.b(self.p.zero_bound_p):
                    # zero as an endpoint (the falsy corner value of a bound)
                    lo, hi = self.pick([(-2, 0), (-1, 0), (0, 1), (0, 3), (-3, 0)])
                m = self.i(0, 5)
                if m == 0 and allow_unbounded:
                    return ["int", lo, None]
                if m == 1 and allow_unbounded:
                    return ["int", None, hi]
                return ["int", lo, hi]
            return ["int", None, None]
        if self.p.bounded and self.b(0.5 if self.p.bounded_p is None else self.p.bounded_p):
            lo = self.i(-2, 1)
            hi = lo + self.i(1, 5)
            m = self.i(0, 5)
            if self.b(self.p.zero_bound_p):
                lo, hi = self.pick([(-2, 0), (-1, 0), (0, 1), (0, 3)])
                if m >= 2:
                    return ["real", str(lo), str(hi)]
            if m == 0:
                return ["real", str(lo), None]
            if m == 1:
                return ["real", None, str(hi)]
            return ["real", str(Fraction(lo * 2 - 1, 2)), str(Fraction(hi * 2 + 1, 2))]
        return ["real", None, None]

    def param_type(self):
        if self.p.bool_fluent_params and self.b(0.15):
            return "bool"
        return ["user", self.pick(self.types)[0]]

    def gen_fluents(self):
        n = self.i(1, self.p.max_fluents)
        for _ in range(n):
            kind = self.pick(self.p.fluent_kinds)
            if kind == "bool":
                t = "bool"
            elif kind == "obj":
                t = ["user", self.pick(self.types)[0]]
            else:
                t = self.num_type(kind)
            arity = self.i(0, self.p.max_arity)
            if arity == 2 and self.b(0.5):
                arity = 1
            params = [[f"x{k}", self.param_type()] for k in range(arity)]
            f = {"name": self.name("f"), "type": t, "params": params, "default": None}
            if params and self.p.static_p and self.fluents and self.b(self.p.static_p):
                f["nowrite"] = True  # static: what the grounder prunes on
            self.fluents.append(f)
        # make sure there is at least one Boolean fluent (goals / conditions need atoms)
        if not any(f["type"] == "bool" for f in self.fluents):
            self.fluents.append({"name": self.name("f"), "type": "bool", "params": [], "default": None})

    def gen_ifuns(self):
        if not self.p.ifuns:
            return
        for _ in range(self.i(0, 2)):
            kind = self.pick(["bool", "int", "obj"])
            nargs = self.i(1, 2)
            params = []
            for _ in range(nargs):
                params.append(self.pick(["bool", ["int", None, None], ["user", self.pick(self.types)[0]]]))
            g = {
                "name": self.name("g"),
                "params": params,
                "fn": ["lin", [self.i(1, 3) for _ in range(nargs)], self.i(0, 3), self.i(2, 4)],
            }
            if kind == "bool":
                g["ret"] = "bool"
            elif kind == "int":
                g["ret"] = ["int", None, None]
                g["offset"] = self.i(-1, 1)
            else:
                tn = self.pick(self.types)[0]
                g["ret"] = ["user", tn]
                g["objs"] = self.objs_of(tn)
                if not g["objs"]:
                    continue
            self.ifuns.append(g)

    # ------------------------------------------------------------ constants
    def const_of(self, t, within=True):
        """a constant spec of type t (inside bounds when within)."""
        if t == "bool":
            return ["b", self.b()]
        if t[0] == "user":
            objs = self.objs_of(t[1])
            if not objs:
                return None
            return ["obj", self.pick(objs)]
        lo = None if t[1] is None else Fraction(str(t[1]))
        hi = None if t[2] is None else Fraction(str(t[2]))
        if lo is None and hi is None:
            base = Fraction(self.i(-3, 4))
        elif lo is None:
            base = hi - self.i(0, 4)
        elif hi is None:
            base = lo + self.i(0, 4)
        else:
            span = int(hi - lo)
            base = lo + self.i(0, max(span, 0))
        if t[0] == "int":
            return ["i", int(base)]
        if self.p.real_consts and self.b(0.3):
            half = base + Fraction(1, 2)
            if (hi is None or half <= hi) and (lo is None or half >= lo):
                base = half
        if base.denominator == 1 and self.b(0.5):
            return ["i", int(base)]
        return ["r", str(base)]

    def small_num(self):
        if self.p.big_consts and self.b(0.15):
            if self.p.real_consts and self.b(0.4):
                # rationals with large denominators (no float / limit_denominator() represents them)
                return ["r", self.pick(["1/1000003", "1/1000000000", "123456789/1000000007", "-7/3000017", "2/18014398509481985"])]
            return ["i", self.pick([2**53 + 1, -(2**60) - 1, 3 * (2**60 + 1), 10**20 + 7])]
        if self.p.real_consts and self.b(0.2):
            return ["r", str(Fraction(self.i(-5, 7), self.pick([2, 4, 5] if self.p.decimal_only else [2, 3, 4])))]
        return ["i", self.i(-3, 5)]

    # ------------------------------------------------------------ terms
    def obj_term(self, tname, scope, depth):
        """a term whose type is tname or a subtype; None when impossible."""
        subs = self.subtypes(tname)
        cands = []
        for o in self.objs_of(tname):
            cands.append(("o", o))
        for pn, pt in scope["params"]:
            if pt != "bool" and pt[0] == "user" and pt[1] in subs:
                cands.append(("p", pn))
                cands.append(("p", pn))
        for vn, vt in scope["vars"]:
            if vt[0] == "user" and vt[1] in subs:
                cands.append(("v", vn, vt))
                cands.append(("v", vn, vt))
                cands.append(("v", vn, vt))
        if depth > 0 and self.p.nested_fluent_args or depth > 0 and scope.get("allow_obj_fluent"):
            for f in self.fluents:
                if f["type"] != "bool" and f["type"][0] == "user" and f["type"][1] in subs:
                    cands.append(("f", f))
        if depth > 0 and self.p.ifuns:
            for g in self.ifuns:
                if g["ret"] != "bool" and g["ret"][0] == "user" and g["ret"][1] in subs:
                    cands.append(("g", g))
        if not cands:
            return None
        c = self.pick(cands)
        if c[0] == "o":
            return ["obj", c[1]]
        if c[0] == "p":
            return ["par", c[1]]
        if c[0] == "v":
            return ["var", c[1], c[2]]
        if c[0] == "f":
            return self.fluent_app(c[1], scope, depth - 1)
        return self.ifun_app(c[1], scope, depth - 1)

    def arg_term(self, pt, scope, depth):
        if pt == "bool":
            return ["b", self.b()]
        if pt[0] == "int":
            if pt[1] is not None and pt[2] is not None:
                return ["i", self.i(pt[1], pt[2])]
            return self.num_expr(scope, min(depth, 1), want_int=True)
        return self.obj_term(pt[1], scope, depth)

    def fluent_app(self, f, scope, depth):
        args = []
        for _, pt in f["params"]:
            a = self.arg_term(pt, scope, depth)
            if a is None:
                return None
            args.append(a)
        return ["fl", f["name"]] + args

    def ifun_app(self, g, scope, depth):
        args = []
        self._ifn_nesting = getattr(self, "_ifn_nesting", 0) + 1
        try:
            for pt in g["params"]:
                if pt == "bool":
                    if self._ifn_nesting > 2:
                        a = ["b", self.b()]
                    else:
                        a = self.bool_expr(scope, min(depth, 1))
                elif self._ifn_nesting > 2 and pt != "bool" and pt[0] == "int":
                    a = ["i", self.i(-2, 3)]
                else:
                    a = self.arg_term(pt, scope, depth)
                if a is None:
                    return None
                args.append(a)
        finally:
            self._ifn_nesting -= 1
        return ["ifn", g["name"]] + args

    def num_expr(self, scope, depth, want_int=False):
        leaves = []
        for f in self.fluents:
            if f["type"] != "bool" and f["type"][0] in ("int", "real"):
                if want_int and f["type"][0] != "int":
                    continue
                leaves.append(("f", f))
        for pn, pt in scope["params"]:
            if pt != "bool" and pt[0] == "int":
                leaves.append(("p", pn))
        if self.p.ifuns:
            for g in self.ifuns:
                if g["ret"] != "bool" and g["ret"][0] == "int":
                    leaves.append(("g", g))
        k = self.i(0, 9)
        if depth <= 0 or k < 4 or not self.p.arith:
            if leaves and self.b(0.65) and not scope.get("const_only"):
                c = self.pick(leaves)
                if c[0] == "f":
                    r = self.fluent_app(c[1], scope, depth - 1)
                elif c[0] == "p":
                    r = ["par", c[1]]
                else:
                    r = self.ifun_app(c[1], scope, depth - 1)
                if r is not None:
                    return r
            c = self.small_num()
            if want_int and c[0] == "r":
                return ["i", self.i(-3, 5)]
            return c
        if self.p.rational_divisors and not want_int and self.p.division and self.b(0.2):
            # a non-integer constant divisor: x / (1/2) must not be read as (x / 1) / 2
            return ["/", self.num_expr(scope, depth - 1), ["r", self.pick(["1/2", "5/2", "-1/2", "1/4", "-3/4"])]]
        if k < 6:
            return ["+", self.num_expr(scope, depth - 1, want_int), self.num_expr(scope, depth - 1, want_int)]
        if k < 8:
            return ["-", self.num_expr(scope, depth - 1, want_int), self.num_expr(scope, depth - 1, want_int)]
        if k < 9 or want_int or not self.p.division:
            return ["*", self.num_expr(scope, depth - 1, want_int), self.num_expr(scope, depth - 1, want_int)]
        if self.p.rational_divisors and self.b(0.4):
            # a non-integer constant divisor: x / (1/2) must not be read as (x / 1) / 2
            return ["/", self.num_expr(scope, depth - 1), ["r", self.pick(["1/2", "5/2", "-1/2", "1/4"])]]
        d = self.pick([2, -2, 4, 5, -1] if self.p.decimal_only else [2, -2, 3, 4, -1])
        return ["/", self.num_expr(scope, depth - 1), ["i", d]]

    def bool_atom(self, scope, depth):
        if self.p.const_atoms and self.b(0.2):
            op = self.pick(["<=", "<", ">=", ">", "="])
            return [op, self.small_num(), self.small_num()]
        opts = ["fl", "fl", "fl"]
        if self.p.equality:
            opts.append("eq")
        if self.p.numeric_cmp and any(f["type"] != "bool" and f["type"][0] in ("int", "real") for f in self.fluents):
            opts += ["cmp", "cmp"]
        if self.p.ifuns and any(g["ret"] == "bool" for g in self.ifuns):
            opts.append("ifn")
        k = self.pick(opts)
        if k == "fl":
            bf = [f for f in self.fluents if f["type"] == "bool"]
            r = self.fluent_app(self.pick(bf), scope, depth)
            if r is not None:
                return r
            return ["b", True]
        if k == "ifn":
            g = self.pick([g for g in self.ifuns if g["ret"] == "bool"])
            r = self.ifun_app(g, scope, depth)
            return r if r is not None else ["b", True]
        if k == "eq":
            if self.b(0.6) or not self.p.numeric_cmp:
                tn = self.pick(self.types)[0]
                a = self.obj_term(tn, scope, depth)
                b = self.obj_term(tn, scope, depth)
                if a is not None and b is not None and a != b:
                    return ["=", a, b]
            x, y = self.num_expr(scope, depth - 1), self.num_expr(scope, depth - 1)
            if x != y and not (x[0] in ("i", "r") and y[0] in ("i", "r")):
                return ["=", x, y]
            # syntactically trivial equalities (o == o, 3 == 3) are only generated by profiles that ask
            # for constant atoms
            bf = [f for f in self.fluents if f["type"] == "bool"]
            r = self.fluent_app(self.pick(bf), scope, depth)
            return r if r is not None else ["b", True]
        op = self.pick(["<=", "<", ">=", ">"])
        x, y = self.num_expr(scope, depth - 1), self.num_expr(scope, depth - 1)
        if x[0] in ("i", "r") and y[0] in ("i", "r"):
            # constant-only comparisons are generated only through const_atoms
            nums = [f for f in self.fluents if f["type"] != "bool" and f["type"][0] in ("int", "real")]
            r = self.fluent_app(self.pick(nums), scope, 0) if nums else None
            if r is None:
                bf = [f for f in self.fluents if f["type"] == "bool"]
                r2 = self.fluent_app(self.pick(bf), scope, depth)
                return r2 if r2 is not None else ["b", True]
            x = r
        return [op, x, y]

    def bool_expr(self, scope, depth):
        if depth <= 0:
            return self.bool_atom(scope, 1)
        opts = ["atom", "atom", "atom", "and"]
        if self.p.negation:
            opts += ["not", "not"]
        if self.p.disjunction:
            opts += ["or", "or"]
        if self.p.implies_iff and self.p.disjunction and self.p.negation:
            opts += ["implies", "iff"]
        if self.p.quantifiers:
            if self.p.neg_quant_bias:
                if self._quant_kind is None:
                    self._quant_kind = self.pick(["exists", "forall"])
                opts += [self._quant_kind, self._quant_kind, "notq", "notq"]
            else:
                opts += ["exists", "forall"]
        k = self.pick(opts)
        if k == "atom":
            return self.bool_atom(scope, depth)
        if k == "notq":
            # the dual-quantifier shape: not exists v. body  /  not forall v. body
            vt = ["user", self.pick(self.types)[0]]
            vn = f"v{len(scope['vars'])}"
            sc2 = dict(scope)
            sc2["vars"] = scope["vars"] + [(vn, vt)]
            return ["not", [self._quant_kind, [[vn, vt]], self.bool_expr(sc2, depth - 1)]]
        if k == "not":
            return ["not", self.bool_expr(scope, depth - 1)]
        if k in ("and", "or"):
            n = self.i(2, 3)
            return [k] + [self.bool_expr(scope, depth - 1) for _ in range(n)]
        if k in ("implies", "iff"):
            return [k, self.bool_expr(scope, depth - 1), self.bool_expr(scope, depth - 1)]
        vt = ["user", self.pick(self.types)[0]]
        vn = f"v{len(scope['vars'])}"
        if self.b(0.15) and scope["vars"]:
            vn = scope["vars"][-1][0]  # shadowing
        elif self.p.param_name_pool and self.b(0.5):
            vn = self.pick(self.p.param_name_pool)  # may coincide with an action parameter (also up to case)
        sc2 = dict(scope)
        sc2["vars"] = scope["vars"] + [(vn, vt)]
        if k == "exists" and self.p.exists_eq_bias and self.b(0.5):
            # equality between the bound variable and a term that may or may not mention it,
            # of the variable's type, a subtype or a supertype
            base = vt[1]
            if self.b(0.3):
                for tn, par in self.types:
                    if tn == base and par is not None:
                        base = par
            t = self.obj_term(base, dict(sc2, allow_obj_fluent=True), 2)
            if t is not None:
                eq = ["=", ["var", vn, vt], t] if self.b(0.5) else ["=", t, ["var", vn, vt]]
                rest = [self.bool_expr(sc2, depth - 1) for _ in range(self.i(1, 2))]
                items = [eq] + rest
                if self.b(0.3):
                    items = rest + [eq]
                return ["exists", [[vn, vt]], ["and"] + items]
        if self.b(0.25):
            # two variables bound by one quantifier
            vt2 = ["user", self.pick(self.types)[0]]
            vn2 = f"u{len(scope['vars'])}"
            sc3 = dict(scope)
            sc3["vars"] = sc2["vars"] + [(vn2, vt2)]
            if k == "exists" and self.p.exists_eq_bias and self.b(0.6):
                # both variables pinned by equalities, plus a body that uses them
                t1 = self.obj_term(vt[1], dict(scope, allow_obj_fluent=True), 1)
                t2 = self.obj_term(vt2[1], dict(scope, allow_obj_fluent=True), 1)
                if t1 is not None and t2 is not None:
                    items = [["=", ["var", vn, vt], t1], ["=", ["var", vn2, vt2], t2]] + [self.bool_expr(sc3, depth - 1) for _ in range(self.i(1, 2))]
                    if self.b(0.3):
                        items = items[2:] + items[:2]
                    return ["exists", [[vn, vt], [vn2, vt2]], ["and"] + items]
            return [k, [[vn, vt], [vn2, vt2]], self.bool_expr(sc3, depth - 1)]
        return [k, [[vn, vt]], self.bool_expr(sc2, depth - 1)]

    def expr_of_type(self, t, scope, depth):
        if t == "bool":
            return self.bool_expr(scope, depth)
        if t[0] == "user":
            return self.obj_term(t[1], scope, depth)
        return self.num_expr(scope, depth, want_int=(t[0] == "int"))

    # ------------------------------------------------------------ effects
    def gen_effect(self, scope, prev_targets):
        if self.p.effect_same_fluent_bias and prev_targets and self.b(0.35):
            f = self.pick(prev_targets)
        else:
            f = self.pick([x for x in self.fluents if not x.get("nowrite")])
        forall = []
        sc = scope
        if self.p.forall_effects and f["params"] and self.b(0.3):
            cands = [pt for _, pt in f["params"] if pt != "bool" and pt[0] == "user"]
            if cands:
                vt = self.pick(cands)
                if self.b(0.3):
                    # a supertype of the parameter type would be ill-typed; use a subtype or the type
                    vt = ["user", self.pick(self.subtypes(vt[1]))]
                en = f"e{len(scope['vars'])}"
                if self.p.param_name_pool and self.b(0.4):
                    en = self.pick(self.p.param_name_pool)
                forall = [[en, vt]]
                sc = dict(scope)
                sc["vars"] = scope["vars"] + [(forall[0][0], vt)]
        # target
        args = []
        for _, pt in f["params"]:
            if forall and pt != "bool" and pt[0] == "user" and forall[0][1][1] in self.subtypes(pt[1]) and self.b(0.8):
                args.append(["var", forall[0][0], forall[0][1]])
                continue
            a = self.arg_term(pt, sc, 0)  # effect targets may not contain fluents
            if a is None:
                return None
            args.append(a)
        target = ["fl", f["name"]] + args
        t = f["type"]
        kind = "assign"
        if t != "bool" and t[0] in ("int", "real") and self.p.incdec and self.b(0.5):
            kind = self.pick(["inc", "dec"])
        vsc = dict(sc)
        if not self.p.fluent_values:
            vsc["const_only"] = True
        if t == "bool":
            if self.p.fluent_values and self.b(0.25):
                val = self.bool_expr(vsc, 1)
            else:
                val = ["b", self.b(0.6)]
        elif t[0] == "user":
            if self.p.fluent_values and self.b(0.4):
                val = self.obj_term(t[1], dict(vsc, allow_obj_fluent=True), 1)
            else:
                val = self.const_of(t)
            if val is None:
                return None
        else:
            if kind != "assign":
                val = ["i", self.i(1, 2)] if self.b(0.6) else self.num_expr(vsc, 1, want_int=(t[0] == "int"))
            elif self.p.fluent_values and self.p.arith and self.b(self.p.self_update_p):
                # the idiomatic numeric update  f := f +/- c  (reads its own target; steps over bounds)
                val = [self.pick(["+", "+", "-"]), target, ["i", self.i(1, 2)]]
            elif self.b(0.5):
                val = self.const_of(t)
            else:
                val = self.num_expr(vsc, 2, want_int=(t[0] == "int"))
        cond = None
        if self.p.cond_effects and self.b(0.4):
            cond = self.bool_expr(sc, 1)
        return {"kind": kind, "fl": target, "val": val, "cond": cond, "forall": forall}, f

    def gen_action(self, idx):
        nparams = self.i(0, self.p.max_params)
        params = []
        pnames = [f"p{k}" for k in range(nparams)]
        if self.p.param_name_pool:
            pool = list(self.p.param_name_pool)
            pnames = []
            for k in range(nparams):
                cand = [n for n in pool if n not in pnames]
                pnames.append(self.pick(cand) if cand else f"p{k}")
        for k in range(nparams):
            if self.p.int_params and self.b(0.15):
                params.append([pnames[k], ["int", 0, self.i(1, 2)]])
            else:
                params.append([pnames[k], ["user", self.pick(self.types)[0]]])
        scope = {"params": [(n, t) for n, t in params], "vars": []}
        pre = [self.bool_expr(scope, self.i(0, self.p.max_depth)) for _ in range(self.i(0, self.p.max_pre))]
        if self.p.static_p:
            # type-predicate style preconditions: a static Boolean fluent applied to the action's own
            # parameters, as a top-level conjunct (the shape the grounder prunes groundings on)
            for f in self.fluents:
                if not (f.get("nowrite") and f["type"] == "bool" and f["params"]) or not self.b(0.5):
                    continue
                args = []
                for _, pt in f["params"]:
                    if pt == "bool" or pt[0] != "user":
                        args = None
                        break
                    compat = [n for n, t in params if t[0] == "user" and t[1] in self.subtypes(pt[1])]
                    objs = self.objs_of(pt[1])
                    if compat and (self.b(0.8) or not objs):
                        args.append(["par", self.pick(compat)])
                    elif objs:
                        args.append(["obj", self.pick(objs)])
                    else:
                        args = None
                        break
                if args is not None:
                    atom = ["fl", f["name"]] + args
                    pre.append(["not", atom] if (self.p.negation and self.b(0.15)) else atom)
        effs = []
        prev = []
        for _ in range(self.i(1, self.p.max_eff)):
            r = self.gen_effect(scope, prev)
            if r is not None:
                effs.append(r[0])
                prev.append(r[1])
        return {"name": self.name("a"), "params": params, "pre": pre, "eff": effs}

    # ------------------------------------------------------------ initial state
    def gen_init(self):
        init = []
        for f in self.fluents:
            t = f["type"]
            mode = self.i(0, 9)
            numeric = t != "bool" and t[0] in ("int", "real")
            bounded = numeric and (t[1] is not None or t[2] is not None)
            may_undef = self.p.undefined and not (numeric and self.p.always_defined_numeric)
            if t == "bool" and not self.p.undefined_bool:
                may_undef = False
            if bounded:
                # an undefined bounded numeric fluent has no value that could satisfy its type
                # (UP rejects the initial state); not generated
                may_undef = False
            if mode <= 5 or not may_undef:
                d = self.const_of(t)
                if d is None:
                    continue
                f["default"] = d
            elif mode <= 7:
                pass  # undefined everywhere unless set below
            # explicit values for some ground instances
            if f["params"] and all(pt != "bool" and pt[0] == "user" for _, pt in f["params"]):
                doms = [self.objs_of(pt[1]) for _, pt in f["params"]]
                if all(doms):
                    for _ in range(self.i(0, 2)):
                        args = [["obj", self.pick(d)] for d in doms]
                        v = self.const_of(t)
                        if v is not None and not any(e[0] == ["fl", f["name"]] + args for e in init):
                            init.append([["fl", f["name"]] + args, v])
            elif not f["params"] and self.b(0.4):
                v = self.const_of(t)
                if v is not None:
                    init.append([["fl", f["name"]], v])
        return init

    def traj_arg(self, scope):
        # mostly literals: constraints whose arguments single actions can switch on and off
        w = getattr(self, "_written", None)
        if w and self.b(0.5):
            # a ground atom some action instance writes: the constraint's status changes along plans
            a = self.pick(w)
            return ["not", a] if (self.p.negation and self.b(0.3)) else a
        if self.b(0.6):
            a = self.bool_atom(scope, 0)
            return ["not", a] if (self.p.negation and self.b(0.3)) else a
        return self.bool_expr(scope, 1)

    def _written_atoms(self, actions):
        """ground Boolean atoms that some instance of some action writes (parameters instantiated by objects of their type)"""
        btypes = {f["name"] for f in self.fluents if f["type"] == "bool"}
        out = []
        for a in actions:
            ptypes = dict((n, t) for n, t in a["params"])
            for e in a["eff"]:
                fl = e["fl"]
                if fl[1] not in btypes:
                    continue
                args = []
                for x in fl[2:]:
                    if x[0] == "obj":
                        args.append(x)
                    elif x[0] == "par" and ptypes.get(x[1], [None])[0] == "user" and self.objs_of(ptypes[x[1]][1]):
                        args.append(["obj", self.objs_of(ptypes[x[1]][1])[0 if len(out) % 2 else -1]])
                    else:
                        args = None
                        break
                if args is not None and ["fl", fl[1]] + args not in out:
                    out.append(["fl", fl[1]] + args)
        return out

    def gen_traj(self, scope):
        k = self.pick(["always", "sometime", "amo", "sb", "sa"])
        if k in ("sb", "sa"):
            return [k, self.traj_arg(scope), self.traj_arg(scope)]
        return [k, self.traj_arg(scope)]

    def problem(self) -> dict:
        self.gen_types()
        self.gen_fluents()
        self.gen_ifuns()
        init = self.gen_init()
        actions = [self.gen_action(k) for k in range(self.i(1, self.p.max_actions))]
        top = {"params": [], "vars": []}
        goals = [self.bool_expr(top, self.i(0, 2)) for _ in range(self.i(0, self.p.max_goals))]
        traj = []
        if self.p.invariants and self.b(0.5):
            for _ in range(self.i(1, 2)):
                traj.append(["always", self.bool_expr(top, self.i(0, 2))])
            if self.p.nested_fluent_args and self.b(0.5):
                # an invariant that reaches a ground fluent only through a nested fluent argument, safe(at):
                # which ground instance it constrains depends on the state
                objfl = [f for f in self.fluents if f["type"] != "bool" and f["type"][0] == "user" and not f["params"]]
                for g_ in objfl:
                    cands = [f for f in self.fluents if f["type"] == "bool" and len(f["params"]) == 1 and f["params"][0][1] != "bool"
                             and f["params"][0][1][0] == "user" and g_["type"][1] in self.subtypes(f["params"][0][1][1])]
                    if cands:
                        atom = ["fl", self.pick(cands)["name"], ["fl", g_["name"]]]
                        traj.append(["always", ["not", atom] if self.b(0.5) else atom])
                        break
        if self.p.traj and self.b(0.7):
            self._written = self._written_atoms(actions)
            for _ in range(self.i(1, 2)):
                traj.append(self.gen_traj(top))
        return {
            "types": [list(t) for t in self.types],
            "objects": [list(o) for o in self.objects],
            "fluents": self.fluents,
            "ifuns": self.ifuns,
            "init": init,
            "actions": actions,
            "goals": goals,
            "traj": traj,
        }


def problems(profile: Profile = SEQ_FULL):
    @st.composite
    def strat(draw):
        return Gen(draw, profile).problem()

    return strat()


# ---------------------------------------------------------------- temporal layer


class TGen(Gen):
    """temporal problems: durative (and instantaneous) actions, timed effects / goals."""

    def dur_bound(self, scope, allow_fluent=True):
        ints = [p for p in scope["params"] if p[1] != "bool" and p[1][0] == "int"]
        if ints and allow_fluent and self.b(0.5):
            # a duration written directly over a numeric action parameter: differs between instances of one action
            par = ["par", self.pick(ints)[0]]
            return par if self.b(0.4) else ["+", ["*", ["i", 2], par], ["i", 1]]
        k = self.i(0, 9)
        if k < 7 or not allow_fluent:
            return self.pick([["i", 1], ["i", 2], ["i", 3], ["r", "1/2"], ["r", "3/2"], ["i", 4]])
        nums = [f for f in self.fluents if f.get("nowrite")]
        if nums and k < 9:
            return ["fl", self.pick(nums)["name"]]
        ints = [p for p in scope["params"] if p[1] != "bool" and p[1][0] == "int"]
        if ints:
            return ["par", self.pick(ints)[0]]
        return ["i", 2]

    def gen_duration(self, scope):
        lo = self.dur_bound(scope)
        m = self.i(0, 9)
        if m < 4 or self.p.fixed_durations_only:
            return {"lo": lo, "hi": lo, "lopen": False, "ropen": False}
        durfl = [f for f in self.fluents if f.get("nowrite") and not f["params"] and f["type"] != "bool" and f["type"][0] in ("int", "real")]
        if lo[0] in ("i", "r") and durfl and self.b(0.3):
            # constant lower bound, fluent-dependent upper bound (duration fluents are >= 1)
            return {"lo": lo, "hi": ["+", lo, ["fl", self.pick(durfl)["name"]]], "lopen": self.b(0.4), "ropen": self.b(0.4)}
        if lo[0] in ("i", "r"):
            from fractions import Fraction as F

            hi_v = F(str(lo[1])) + self.pick([F(1), F(2), F(1, 2)])
            hi = ["i", int(hi_v)] if hi_v.denominator == 1 else ["r", str(hi_v)]
        else:
            hi = ["+", lo, ["i", self.i(1, 2)]]
        return {"lo": lo, "hi": hi, "lopen": self.b(0.4), "ropen": self.b(0.4)}

    def gen_interval(self):
        # NOTE: the kind computation flags an interval with exactly one delayed end as
        # EXTERNAL_CONDITIONS_AND_EFFECTS (unsupported by the validators), so either both ends
        # are delayed or none is.
        k = self.i(0, 9)
        if not self.p.temporal_delays:
            k = k % 6
        d = lambda: self.pick(["1/2", 1, "1/2"])
        if k < 2:
            return [["s", 0], ["s", 0], False, False]
        if k < 4:
            return [["e", 0], ["e", 0], False, False]
        if k < 6:
            return [["s", 0], ["e", 0], self.b(0.5), self.b(0.5)]
        if k < 8:
            return [["s", d()], ["e", d()], self.b(0.4), self.b(0.3)]
        if k < 9:
            x = d()
            return [["s", x], ["s", x], False, False]
        return [["s", "1/2"], ["s", self.pick([1, "3/2"])], self.b(0.5), False]

    def gen_durative(self, idx):
        nparams = self.i(0, 1)
        params = []
        for k in range(nparams):
            if self.p.int_params and self.b(0.3):
                params.append([f"p{k}", ["int", 1, 2]])
            else:
                params.append([f"p{k}", ["user", self.pick(self.types)[0]]])
        scope = {"params": [(n, t) for n, t in params], "vars": []}
        conds = [{"iv": self.gen_interval(), "e": self.bool_expr(scope, self.i(0, 1))} for _ in range(self.i(0, 3))]
        effs, prev = [], []
        for _ in range(self.i(1, 3)):
            r = self.gen_effect(scope, prev)
            if r is None:
                continue
            e, f = r
            e["t"] = self.pick([["s", 0], ["e", 0], ["e", 0], ["s", "1/2"], ["e", "1/2"], ["s", 1]] if self.p.temporal_delays else [["s", 0], ["e", 0], ["e", 0]])
            effs.append(e)
            prev.append(f)
        durfl = [f for f in self.fluents if f.get("nowrite")]
        if durfl and self.p.dur_fluents_grow and self.b(0.3):
            # a duration-relevant fluent that only grows (durations stay positive but change along the plan)
            effs.append({"kind": "inc", "fl": ["fl", self.pick(durfl)["name"]], "val": ["i", 1], "cond": None, "forall": [], "t": ["e", 0]})
        return {"name": self.name("d"), "params": params, "dur": self.gen_duration(scope), "conds": conds, "effs": effs}

    def temporal_problem(self):
        self.gen_types()
        self.gen_fluents()
        self.gen_ifuns()
        init = self.gen_init()
        # fluents that durations may depend on: never written, positive (durations stay positive)
        for k in range(self.i(0, 2)):
            self.fluents.append({"name": self.name("dur"), "type": ["int", None, None] if self.b(0.6) else ["real", None, None], "params": [], "default": self.pick([["i", 1], ["i", 2], ["i", 3]]), "nowrite": True})
        actions = [self.gen_durative(k) for k in range(self.i(1, 2))]
        if self.b(0.5):
            actions.append(self.gen_action(9))
        top = {"params": [], "vars": []}
        goals = [self.bool_expr(top, self.i(0, 1)) for _ in range(self.i(0, 2))]
        timed_effects = []
        for _ in range(self.i(0, 2) if (self.p.timed_items and self.b(0.5)) else 0):
            r = self.gen_effect(top, [])
            if r is not None and r[0]["kind"] == "assign" and not r[0]["forall"]:
                e = r[0]
                e["t"] = ["gs", self.pick([1, 2, "1/2", 3, "5/2"])]
                timed_effects.append(e)
        timed_goals = []
        for _ in range(self.i(0, 2) if (self.p.timed_items and self.b(0.4)) else 0):
            a = self.pick([0, 1, "1/2", 2])
            k = self.i(0, 3)
            from fractions import Fraction as F

            if k == 0:
                iv = [["gs", a], ["gs", a], False, False]
            elif k == 1:
                iv = [["gs", a], ["gs", str(F(str(a)) + self.pick([F(1), F(2), F(1, 2)]))], self.b(0.5), self.b(0.3)]
            else:
                iv = [["gs", a], ["ge", 0], self.b(0.5), False]
            timed_goals.append({"iv": iv, "e": self.bool_expr(top, self.i(0, 1))})
        return {
            "types": [list(t) for t in self.types],
            "objects": [list(o) for o in self.objects],
            "fluents": self.fluents,
            "ifuns": self.ifuns,
            "init": init,
            "actions": actions,
            "goals": goals,
            "traj": [],
            "timed_effects": timed_effects,
            "timed_goals": timed_goals,
        }


TEMPORAL = Profile(
    ifuns=False, bounded=False, invariants=False, undefined=False, max_fluents=4, max_objects=3, max_arity=1,
    quantifiers=True, nested_fluent_args=False, forall_effects=True, division=False,
)


def temporal_problems(profile: Profile = TEMPORAL):
    @st.composite
    def strat(draw):
        return TGen(draw, profile).temporal_problem()

    return strat()
