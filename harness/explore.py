"""Bounded exploration over the reference semantics: plan enumeration, guided search."""

from __future__ import annotations

from fractions import Fraction
from typing import Any, Callable, Dict, List, Optional, Tuple

from .core import Abstain
from .refsim import RefSim, freeze
from .traj import holds_seq, non_invariant_constraints


class Explorer:
    def __init__(self, problem, use_traj=True):
        self.problem = problem
        self.ref = RefSim(problem)
        self.instances = [(a, args) for a in problem.actions for args in self.ref.instances(a)]
        self.tcs = non_invariant_constraints(problem) if use_traj else []
        self.abstained = 0

    def goal_ok(self, states) -> bool:
        if not self.ref.goal(states[-1]):
            return False
        for tc in self.tcs:
            if not holds_seq(self.problem, self.ref.E, tc, states):
                return False
        return True

    def valid_plans(self, max_len: int, max_nodes: int = 1500, max_plans: int = 60):
        """All valid plans up to max_len (sequence enumeration, no state merging, so that
        trajectory constraints are judged on each state sequence).  Returns (plans, complete)
        where each plan is (steps, states) and complete says whether the bound was exhausted."""
        out = []
        nodes = 0
        complete = True
        s0 = self.ref.initial_state()
        try:
            if self.goal_ok([s0]):
                out.append(([], [s0]))
        except Abstain:
            self.abstained += 1
        frontier = [([], [s0])]
        for depth in range(max_len):
            nxt = []
            for steps, states in frontier:
                for a, args in self.instances:
                    nodes += 1
                    if nodes > max_nodes:
                        return out, False
                    try:
                        s2, why = self.ref.try_apply(states[-1], a, args)
                    except Abstain:
                        self.abstained += 1
                        complete = False
                        continue
                    if s2 is None:
                        continue
                    st2 = states + [s2]
                    sp2 = steps + [(a, args)]
                    try:
                        if self.goal_ok(st2):
                            if len(out) < max_plans:
                                out.append((sp2, st2))
                            else:
                                complete = False
                    except Abstain:
                        self.abstained += 1
                        complete = False
                    nxt.append((sp2, st2))
            frontier = nxt
        return out, complete

    def execute(self, steps) -> Optional[List[Dict]]:
        """state sequence of a plan, or None when some step is inapplicable."""
        states = [self.ref.initial_state()]
        for a, args in steps:
            s2, why = self.ref.try_apply(states[-1], a, args)
            if s2 is None:
                return None
            states.append(s2)
        return states

    def is_valid(self, steps) -> Tuple[bool, str]:
        states = [self.ref.initial_state()]
        self.last_flags = set()
        for k, (a, args) in enumerate(steps):
            info = {}
            s2, why = self.ref.try_apply(states[-1], a, args, info)
            self.last_flags |= {f for f, v in info.items() if v}
            if s2 is None:
                return False, f"step {k} inapplicable ({why})"
            states.append(s2)
        if not self.ref.goal(states[-1]):
            return False, "goal not satisfied"
        for tc in self.tcs:
            if not holds_seq(self.problem, self.ref.E, tc, states):
                return False, f"trajectory constraint {tc} violated"
        return True, "valid"

    def reachable(self, max_states=400):
        """set of reachable frozen states (ignoring trajectory constraints); complete flag."""
        s0 = self.ref.initial_state()
        seen = {freeze(s0): s0}
        frontier = [s0]
        complete = True
        while frontier:
            nxt = []
            for s in frontier:
                for a, args in self.instances:
                    try:
                        s2, why = self.ref.try_apply(s, a, args)
                    except Abstain:
                        complete = False
                        continue
                    if s2 is None:
                        continue
                    if any(isinstance(v, Fraction) and abs(v) > 10**30 for v in s2.values()):
                        return seen, False  # numeric blow-up: the space is not finite in practice
                    k = freeze(s2)
                    if k not in seen:
                        if len(seen) >= max_states:
                            return seen, False
                        seen[k] = s2
                        nxt.append(s2)
            frontier = nxt
        return seen, complete
