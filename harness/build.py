"""spec (plain JSON) -> unified_planning objects, always in an explicit Environment.

Expression spec: nested lists [op, child...]; leaves refer to declared names.
  ["b", true] ["i", 5] ["r", "3/4"] ["obj", name] ["par", name] ["var", name, type]
  ["fl", name, arg...] ["ifn", name, arg...] ["dot", agent, e]
  ["and", ...] ["or", ...] ["not", e] ["implies", a, b] ["iff", a, b]
  ["exists", [[v, type]...], body] ["forall", [[v, type]...], body]
  ["+", ...] ["-", a, b] ["*", ...] ["/", a, b] ["<=", a, b] ["<", a, b] [">=", a, b] [">", a, b] ["=", a, b]
  ["always", e] ["sometime", e] ["amo", e] ["sb", a, b] ["sa", a, b]
Type spec: "bool" | ["int", lo, hi] | ["real", lo, hi] | ["user", name]   (lo/hi may be null)
"""

from __future__ import annotations

from collections import OrderedDict
from fractions import Fraction
from typing import Any, Dict, List, Optional

import unified_planning as up
from unified_planning.environment import Environment
from unified_planning.model import (
    DurativeAction,
    Fluent,
    InstantaneousAction,
    InterpretedFunction,
    Object,
    Parameter,
    Problem,
    Variable,
)
from unified_planning.model import timing as T
from unified_planning.exceptions import UPConflictingEffectsException, UPTypeError


class UPEffectTypeError(Exception):
    """value type disjoint from the fluent type: documented rejection of add_effect"""


def frac(x) -> Fraction:
    if isinstance(x, Fraction):
        return x
    if isinstance(x, int):
        return Fraction(x)
    return Fraction(str(x))


def num(x):
    """int stays int, anything else becomes a Fraction (ints when integral stay Fraction)."""
    if isinstance(x, bool):
        raise TypeError(x)
    if isinstance(x, int):
        return x
    return Fraction(str(x))


class IFun:
    """Deterministic interpreted functions described by a small spec.

    fn = ["lin", coeffs, const, mod]  value = (sum c_i*code(arg_i) + const) mod `mod`
    Return type bool: value % 2 == 0; int: value (+ offset); user type: objects[value % n].
    code(bool)=0/1, code(int)=the int, code(Fraction)=numerator+denominator, code(obj)=index
    among the problem's objects sorted by name.
    """

    def __init__(self, spec: dict, objects_by_name: Dict[str, Any]):
        self.spec = spec
        self.names = sorted(objects_by_name)
        self.objects_by_name = objects_by_name
        self.ret = spec["ret"]

    def code(self, a) -> int:
        if isinstance(a, bool):
            return int(a)
        if isinstance(a, int):
            return a
        if isinstance(a, Fraction):
            return a.numerator + a.denominator
        name = getattr(a, "name", None) or str(a)
        return self.names.index(name)

    def pyvalue(self, args) -> Any:
        _, coeffs, const, mod = self.spec["fn"]
        v = const
        for c, a in zip(coeffs, args):
            v += c * self.code(a)
        v = v % mod
        if self.ret == "bool":
            return v % 2 == 0
        if isinstance(self.ret, list) and self.ret[0] == "int":
            return v + self.spec.get("offset", 0)
        if isinstance(self.ret, list) and self.ret[0] == "real":
            return Fraction(v + self.spec.get("offset", 0), self.spec.get("den", 1))
        if isinstance(self.ret, list) and self.ret[0] == "user":
            cands = self.spec["objs"]
            return cands[v % len(cands)]
        raise ValueError(self.ret)

    def __call__(self, *args):
        v = self.pyvalue(args)
        if isinstance(self.ret, list) and self.ret[0] == "user":
            return self.objects_by_name[v]
        return v


class Built:
    def __init__(self, spec: dict, env: Optional[Environment] = None, problem_cls=None, name="p"):
        self.spec = spec
        self.env = env if env is not None else Environment()
        self.em = self.env.expression_manager
        self.tm = self.env.type_manager
        self.types: Dict[str, Any] = {}
        self.objects: Dict[str, Object] = {}
        self.fluents: Dict[str, Fluent] = {}
        self.ifuns: Dict[str, InterpretedFunction] = {}
        self.ifun_models: Dict[str, IFun] = {}
        self.actions: Dict[str, Any] = {}
        self.params: Dict[str, Parameter] = {}  # current action scope
        self.vars: Dict[Any, Variable] = {}
        self.problem = None
        self.dropped_effects = 0
        self._build_problem(problem_cls or Problem, name)

    # ------------------------------------------------------------ types
    def typ(self, ts):
        if ts == "bool":
            return self.tm.BoolType()
        k = ts[0]
        if k == "int":
            return self.tm.IntType(ts[1], ts[2])
        if k == "real":
            lo = None if ts[1] is None else frac(ts[1])
            hi = None if ts[2] is None else frac(ts[2])
            return self.tm.RealType(lo, hi)
        if k == "user":
            return self.types[ts[1]]
        raise ValueError(ts)

    def var(self, name, ts) -> Variable:
        key = (name, repr(ts))
        if key not in self.vars:
            self.vars[key] = Variable(name, self.typ(ts), self.env)
        return self.vars[key]

    # ------------------------------------------------------------ expressions
    def expr(self, e):
        em = self.em
        op = e[0]
        if op == "b":
            return em.Bool(bool(e[1]))
        if op == "i":
            return em.Int(int(e[1]))
        if op == "r":
            return em.Real(frac(e[1]))
        if op == "obj":
            return em.ObjectExp(self.objects[e[1]])
        if op == "par":
            return em.ParameterExp(self.params[e[1]])
        if op == "var":
            return em.VariableExp(self.var(e[1], e[2]))
        if op == "fl":
            return em.FluentExp(self.fluents[e[1]], tuple(self.expr(a) for a in e[2:]))
        if op == "ifn":
            return em.InterpretedFunctionExp(self.ifuns[e[1]], tuple(self.expr(a) for a in e[2:]))
        if op == "dot":
            return em.Dot(self.agents[e[1]], self.expr(e[2]))
        if op == "and":
            return em.And([self.expr(a) for a in e[1:]])
        if op == "or":
            return em.Or([self.expr(a) for a in e[1:]])
        if op == "not":
            return em.Not(self.expr(e[1]))
        if op == "implies":
            return em.Implies(self.expr(e[1]), self.expr(e[2]))
        if op == "iff":
            return em.Iff(self.expr(e[1]), self.expr(e[2]))
        if op in ("exists", "forall"):
            vs = [self.var(n, t) for n, t in e[1]]
            body = self.expr(e[2])
            return (em.Exists if op == "exists" else em.Forall)(body, *vs)
        if op == "+":
            return em.Plus([self.expr(a) for a in e[1:]])
        if op == "*":
            return em.Times([self.expr(a) for a in e[1:]])
        if op == "-":
            return em.Minus(self.expr(e[1]), self.expr(e[2]))
        if op == "/":
            return em.Div(self.expr(e[1]), self.expr(e[2]))
        if op == "<=":
            return em.LE(self.expr(e[1]), self.expr(e[2]))
        if op == "<":
            return em.LT(self.expr(e[1]), self.expr(e[2]))
        if op == ">=":
            return em.GE(self.expr(e[1]), self.expr(e[2]))
        if op == ">":
            return em.GT(self.expr(e[1]), self.expr(e[2]))
        if op == "=":
            return em.Equals(self.expr(e[1]), self.expr(e[2]))
        if op == "always":
            return em.Always(self.expr(e[1]))
        if op == "sometime":
            return em.Sometime(self.expr(e[1]))
        if op == "amo":
            return em.AtMostOnce(self.expr(e[1]))
        if op == "sb":
            return em.SometimeBefore(self.expr(e[1]), self.expr(e[2]))
        if op == "sa":
            return em.SometimeAfter(self.expr(e[1]), self.expr(e[2]))
        raise ValueError(f"unknown expression op {op!r}")

    # ------------------------------------------------------------ timing
    def timing(self, t):
        """["s", delay] ["e", delay] ["gs", delay] ["ge", delay]; delay >= 0; for end kinds the
        timing is end - delay."""
        k, d = t[0], num(t[1]) if len(t) > 1 else 0
        if k == "s":
            return T.StartTiming(d)
        if k == "e":
            return T.EndTiming() - d if d != 0 else T.EndTiming()
        if k == "gs":
            return T.GlobalStartTiming(d)
        if k == "ge":
            return T.GlobalEndTiming() - d if d != 0 else T.GlobalEndTiming()
        raise ValueError(t)

    def interval(self, iv):
        """[t1, t2, left_open, right_open]"""
        lo, hi = self.timing(iv[0]), self.timing(iv[1])
        return T.TimeInterval(lo, hi, bool(iv[2]), bool(iv[3]))

    def duration(self, d):
        lo, hi = self.expr(d["lo"]), self.expr(d["hi"])
        return T.DurationInterval(lo, hi, bool(d.get("lopen")), bool(d.get("ropen")))

    # ------------------------------------------------------------ effects
    def add_effect(self, target, eff, timing=None):
        fl = self.expr(eff["fl"])
        val = self.expr(eff["val"])
        cond = self.expr(eff["cond"]) if eff.get("cond") is not None else True
        fa = tuple(self.var(n, t) for n, t in eff.get("forall", []))
        kind = eff.get("kind", "assign")
        m = {"assign": "add_effect", "inc": "add_increase_effect", "dec": "add_decrease_effect"}[kind]
        if not fl.type.is_compatible(val.type):
            raise UPEffectTypeError()
        if timing is None:
            getattr(target, m)(fl, val, cond, fa)
        else:
            if isinstance(target, Problem):
                m = {"assign": "add_timed_effect", "inc": "add_increase_effect", "dec": "add_decrease_effect"}[kind]
            getattr(target, m)(timing, fl, val, cond, fa)

    # ------------------------------------------------------------ actions
    def make_action(self, a):
        self.params = {}
        kw = OrderedDict((n, self.typ(t)) for n, t in a.get("params", []))
        if "dur" in a:
            act = DurativeAction(a["name"], kw, self.env)
        else:
            act = InstantaneousAction(a["name"], kw, self.env)
        self.params = {p.name: p for p in act.parameters}
        if "dur" in a:
            act.set_duration_constraint(self.duration(a["dur"]))
            for c in a.get("conds", []):
                act.add_condition(self.interval(c["iv"]), self.expr(c["e"]))
            for ef in a.get("effs", []):
                try:
                    self.add_effect(act, ef, self.timing(ef["t"]))
                except (UPConflictingEffectsException, UPEffectTypeError):
                    self.dropped_effects += 1
        else:
            for p in a.get("pre", []):
                act.add_precondition(self.expr(p))
            for ef in a.get("eff", []):
                try:
                    self.add_effect(act, ef)
                except (UPConflictingEffectsException, UPEffectTypeError):
                    # statically conflicting effects are rejected by the model (C24's subject);
                    # the builder deterministically drops them
                    self.dropped_effects += 1
        self.params = {}
        return act

    # ------------------------------------------------------------ problem
    def _build_problem(self, cls, name):
        s = self.spec
        for tn, parent in s.get("types", []):
            self.types[tn] = self.tm.UserType(tn, self.types[parent] if parent else None)
        defaults = {self.typ(t): self._const_noobj(v) for t, v in s.get("type_defaults") or []}
        p = cls(name, self.env, initial_defaults=defaults)
        self.problem = p
        for tn in self.types:
            if hasattr(p, "_add_user_type"):
                p._add_user_type(self.types[tn])
        for on, tn in s.get("objects", []):
            o = Object(on, self.types[tn], self.env)
            self.objects[on] = o
            p.add_object(o)
        for f in s.get("fluents", []):
            sig = OrderedDict((n, self.typ(t)) for n, t in f.get("params", []))
            fl = Fluent(f["name"], self.typ(f["type"]), sig, self.env)
            self.fluents[f["name"]] = fl
            if f.get("default") is not None:
                p.add_fluent(fl, default_initial_value=self._const(f["default"]))
            else:
                p.add_fluent(fl)
        for g in s.get("ifuns", []):
            model = IFun(g, self.objects)
            sig = OrderedDict((f"a{i}", self.typ(t)) for i, t in enumerate(g["params"]))
            self.ifun_models[g["name"]] = model
            self.ifuns[g["name"]] = InterpretedFunction(g["name"], self.typ(g["ret"]), sig, model, self.env)
        for fe, v in s.get("init", []):
            p.set_initial_value(self.expr(fe), self._const(v))
        for a in s.get("actions", []):
            act = self.make_action(a)
            self.actions[a["name"]] = act
            p.add_action(act)
        for g in s.get("goals", []):
            p.add_goal(self.expr(g))
        for tc in s.get("traj", []):
            p.add_trajectory_constraint(self.expr(tc))
        for te in s.get("timed_effects", []):
            try:
                self.add_effect(p, te, self.timing(te["t"]))
            except (UPConflictingEffectsException, UPEffectTypeError):
                self.dropped_effects += 1
        for tg in s.get("timed_goals", []):
            p.add_timed_goal(self.interval(tg["iv"]), self.expr(tg["e"]))
        if s.get("epsilon") is not None:
            p.epsilon = frac(s["epsilon"])
        m = s.get("metric")
        if m is not None:
            p.add_quality_metric(self.metric(m))

    def _const(self, v):
        return self.expr(v)

    def _const_noobj(self, v):
        # per-type defaults are given before objects exist: python constants only
        if v[0] == "b":
            return bool(v[1])
        if v[0] == "i":
            return int(v[1])
        if v[0] == "r":
            return frac(v[1])
        return self.expr(v)

    def metric(self, m):
        from unified_planning.model import metrics as M

        k = m["kind"]
        if k == "costs":
            costs = {self.actions[a]: self._cost_expr(a, c) for a, c in m["costs"]}
            default = None if m.get("default") is None else self.expr(m["default"])
            return M.MinimizeActionCosts(costs, default, self.env)
        if k == "length":
            return M.MinimizeSequentialPlanLength(self.env)
        if k == "minfinal":
            return M.MinimizeExpressionOnFinalState(self.expr(m["e"]), self.env)
        if k == "maxfinal":
            return M.MaximizeExpressionOnFinalState(self.expr(m["e"]), self.env)
        if k == "oversub":
            goals = {self.expr(g): num(w) for g, w in m["goals"]}
            return M.Oversubscription(goals, self.env)
        if k == "makespan":
            return M.MinimizeMakespan(self.env)
        raise ValueError(k)

    def _cost_expr(self, aname, c):
        act = self.actions[aname]
        self.params = {p.name: p for p in act.parameters}
        try:
            return self.expr(c)
        finally:
            self.params = {}

    # ------------------------------------------------------------ plans
    def instance(self, step):
        """[action name, [object names / constant specs]]"""
        from unified_planning.plans import ActionInstance

        act = self.actions[step[0]]
        args = []
        for a in step[1]:
            if isinstance(a, str):
                args.append(self.em.ObjectExp(self.objects[a]))
            else:
                args.append(self.expr(a))
        return ActionInstance(act, tuple(args))


def build(spec: dict, env: Optional[Environment] = None, **kw) -> Built:
    return Built(spec, env, **kw)
