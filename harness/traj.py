"""PDDL3 trajectory-constraint semantics over a finite state sequence s0..sn.

always phi              : phi holds in every state
sometime phi            : phi holds in some state
at-most-once phi        : the states where phi holds form one contiguous block (or none)
sometime-before phi psi : every i with phi has a j < i with psi
sometime-after phi psi  : every i with phi has a j >= i with psi
Constraints may be wrapped in And / Forall (expanded over the objects of the variable types).
"""

from __future__ import annotations

from itertools import product

from unified_planning.model.operators import OperatorKind as OK

from .refsim import Evaluator, type_objects


def holds_seq(problem, E: Evaluator, tc, states, vb=None) -> bool:
    vb = vb or {}
    t = tc.node_type
    if t == OK.AND:
        return all(holds_seq(problem, E, a, states, vb) for a in tc.args)
    if t == OK.FORALL:
        vs = tc.variables()
        doms = [type_objects(problem, v.type) for v in vs]
        for combo in product(*doms):
            vb2 = dict(vb)
            for v, o in zip(vs, combo):
                vb2[(v.name, v.type)] = o
            if not holds_seq(problem, E, tc.arg(0), states, vb2):
                return False
        return True
    if t == OK.BOOL_CONSTANT:
        return bool(tc.constant_value())
    ev = lambda e, s: E.holds(e, s, {}, vb)
    if t == OK.ALWAYS:
        return all(ev(tc.arg(0), s) for s in states)
    if t == OK.SOMETIME:
        return any(ev(tc.arg(0), s) for s in states)
    if t == OK.AT_MOST_ONCE:
        vals = [ev(tc.arg(0), s) for s in states]
        blocks = sum(1 for i, v in enumerate(vals) if v and (i == 0 or not vals[i - 1]))
        return blocks <= 1
    if t == OK.SOMETIME_BEFORE:
        phi = [ev(tc.arg(0), s) for s in states]
        psi = [ev(tc.arg(1), s) for s in states]
        return all(any(psi[:i]) for i, v in enumerate(phi) if v)
    if t == OK.SOMETIME_AFTER:
        phi = [ev(tc.arg(0), s) for s in states]
        psi = [ev(tc.arg(1), s) for s in states]
        return all(any(psi[i:]) for i, v in enumerate(phi) if v)
    raise ValueError(f"not a trajectory constraint: {tc}")


def non_invariant_constraints(problem):
    """trajectory constraints that are not pure state invariants"""
    out = []
    for tc in problem.trajectory_constraints:
        if tc.is_always():
            continue
        out.append(tc)
    return out
