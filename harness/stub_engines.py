"""Stub engine classes for C32: every static predicate answers from a class-level table
that the check fills from the generated case before registering the class in a fresh
factory.  They never solve anything; only selection is exercised."""

from __future__ import annotations

import unified_planning as up
from unified_planning.engines import (
    AnytimeGuarantee,
    CompilationKind,
    Engine,
    OptimalityGuarantee,
)
from unified_planning.engines.mixins import (
    AnytimePlannerMixin,
    CompilerMixin,
    OneshotPlannerMixin,
    PlanRepairerMixin,
    PlanValidatorMixin,
    PortfolioSelectorMixin,
)
from unified_planning.model import ProblemKind
from unified_planning.model.problem_kind_versioning import LATEST_PROBLEM_KIND_VERSION


class _Stub(Engine):
    FEATURES: frozenset = frozenset()  # supported features
    OPT: frozenset = frozenset()  # names of satisfied OptimalityGuarantee
    ANY: frozenset = frozenset()  # names of ensured AnytimeGuarantee
    PLANS: frozenset = frozenset()  # names of supported PlanKind
    CKINDS: frozenset = frozenset()  # names of supported CompilationKind
    REMOVES: frozenset = frozenset()  # compilers: features removed from the kind
    ADDS: frozenset = frozenset()  # compilers: features added to the kind

    def __init__(self, **kwargs):
        Engine.__init__(self)

    @property
    def name(self):
        return type(self).__name__

    @classmethod
    def configure(cls, table):
        cls.FEATURES = frozenset(table.get("features", ()))
        cls.OPT = frozenset(table.get("opt", ()))
        cls.ANY = frozenset(table.get("any", ()))
        cls.PLANS = frozenset(table.get("plans", ()))
        cls.CKINDS = frozenset(table.get("ckinds", ()))
        cls.REMOVES = frozenset(table.get("removes", ()))
        cls.ADDS = frozenset(table.get("adds", ()))


def _mk(name, bases, extra):
    """builds a stub class whose static predicates read the class tables"""
    holder = {}

    def supported_kind():
        return ProblemKind(set(holder["cls"].FEATURES), version=LATEST_PROBLEM_KIND_VERSION)

    def supports(problem_kind):
        # the ordering of kinds, as Engine subclasses in the library do it: a kind declared at an older
        # version is upgraded first (its features imply others), so this is not plain set inclusion
        return problem_kind <= supported_kind()

    def satisfies(optimality_guarantee):
        return optimality_guarantee.name in holder["cls"].OPT

    def ensures(anytime_guarantee):
        return anytime_guarantee.name in holder["cls"].ANY

    def supports_plan(plan_kind):
        return plan_kind.name in holder["cls"].PLANS

    def supports_compilation(compilation_kind):
        return compilation_kind.name in holder["cls"].CKINDS

    def resulting_problem_kind(problem_kind, compilation_kind=None):
        c = holder["cls"]
        feats = (set(problem_kind.features) - c.REMOVES) | c.ADDS
        return ProblemKind(feats, version=LATEST_PROBLEM_KIND_VERSION)

    def _unused(self, *a, **k):
        raise NotImplementedError("stub engine")

    def __init__(self, **kwargs):
        _Stub.__init__(self)
        for b in bases:
            b.__init__(self)

    dct = {
        "__init__": __init__,
        "supported_kind": staticmethod(supported_kind),
        "supports": staticmethod(supports),
    }
    if "opt" in extra:
        dct["satisfies"] = staticmethod(satisfies)
    if "any" in extra:
        dct["ensures"] = staticmethod(ensures)
    if "plans" in extra:
        dct["supports_plan"] = staticmethod(supports_plan)
    if "compiler" in extra:
        dct["supports_compilation"] = staticmethod(supports_compilation)
        dct["resulting_problem_kind"] = staticmethod(resulting_problem_kind)
    for m in ("_solve", "_get_solutions", "_validate", "_compile", "_repair", "_get_best_oneshot_planners"):
        dct[m] = _unused
    cls = type(name, (_Stub,) + tuple(bases), dct)
    cls.__module__ = __name__
    holder["cls"] = cls
    return cls


StubPlannerA = _mk("StubPlannerA", (OneshotPlannerMixin,), {"opt"})
StubPlannerB = _mk("StubPlannerB", (OneshotPlannerMixin, AnytimePlannerMixin), {"opt", "any"})
StubPlannerC = _mk("StubPlannerC", (AnytimePlannerMixin,), {"any"})
StubValidatorA = _mk("StubValidatorA", (PlanValidatorMixin,), {"plans"})
StubValidatorB = _mk("StubValidatorB", (PlanValidatorMixin,), {"plans"})
StubCompilerA = _mk("StubCompilerA", (CompilerMixin,), {"compiler"})
StubCompilerB = _mk("StubCompilerB", (CompilerMixin,), {"compiler"})
StubCompilerC = _mk("StubCompilerC", (CompilerMixin,), {"compiler"})
StubRepairerA = _mk("StubRepairerA", (PlanRepairerMixin,), {"opt", "plans"})
StubRepairerB = _mk("StubRepairerB", (PlanRepairerMixin,), {"opt", "plans"})
StubPortfolioA = _mk("StubPortfolioA", (PortfolioSelectorMixin,), {"opt"})

STUBS = {
    "stub-planner-a": StubPlannerA,
    "stub-planner-b": StubPlannerB,
    "stub-planner-c": StubPlannerC,
    "stub-validator-a": StubValidatorA,
    "stub-validator-b": StubValidatorB,
    "stub-compiler-a": StubCompilerA,
    "stub-compiler-b": StubCompilerB,
    "stub-compiler-c": StubCompilerC,
    "stub-repairer-a": StubRepairerA,
    "stub-repairer-b": StubRepairerB,
    "stub-portfolio-a": StubPortfolioA,
}
