"""Shared machinery for the compiler properties C06-C09."""

from __future__ import annotations

from typing import Any, Dict, List, Optional, Tuple

from hypothesis import strategies as st

from . import gen
from .core import Abstain, HarnessError, Violation
from .explore import Explorer
from .refsim import const_value
from .simcmp import normalize_spec, params_fnodes

_BASE = dict(ifuns=False, undefined=False)

PROFILES: Dict[str, gen.Profile] = {
    # static fluents with parameters (pruned on by the grounder), several preconditions over parameters
    "grounder": gen.Profile(static_p=0.5, max_fluents=5, max_pre=3, max_eff=2, **_BASE),
    "cond_effects": gen.Profile(**_BASE),
    "disjunctive": gen.Profile(invariants=False, **_BASE),
    "negative": gen.Profile(**_BASE),
    "quantifiers": gen.Profile(**_BASE),
    "usertype_fluents": gen.Profile(**_BASE),
    # bound-stressing: almost every numeric fluent is bounded, often with 0 as an endpoint, few
    # preconditions, many self-updates  f := f +/- c  that step over the bounds
    "bounded_types": gen.Profile(fluent_kinds=["int", "int", "real", "bool"], bounded_p=0.9, zero_bound_p=0.4, self_update_p=0.5, max_pre=1, max_arity=1, **_BASE),
    "state_invariants": gen.Profile(**_BASE),
    # the trajectory remover only regresses through and / or / not over Boolean fluents (see the
    # known finding on equalities / implications), so most draws stay in that fragment
    "trajectory": gen.Profile(ifuns=False, undefined=False, forall_effects=False, fluent_kinds=["bool"], numeric_cmp=False, traj=True, invariants=True, arith=False, equality=False, implies_iff=False),
    "undefined_numeric": gen.Profile(ifuns=False, undefined=True, undefined_bool=False, forall_effects=False, invariants=False, fluent_kinds=["bool", "int", "int", "real"]),
}


def compiler_class(name):
    import unified_planning.engines.compilers as C
    from unified_planning.engines.compilers.usertype_fluents_remover import UsertypeFluentsRemover
    from unified_planning.engines.compilers.trajectory_constraints_remover import TrajectoryConstraintsRemover
    from unified_planning.engines.compilers.undefined_initial_numeric_remover import UndefinedInitialNumericRemover
    from unified_planning.engines import CompilationKind as CK

    table = {
        "grounder": (C.Grounder, CK.GROUNDING),
        "cond_effects": (C.ConditionalEffectsRemover, CK.CONDITIONAL_EFFECTS_REMOVING),
        "disjunctive": (C.DisjunctiveConditionsRemover, CK.DISJUNCTIVE_CONDITIONS_REMOVING),
        "negative": (C.NegativeConditionsRemover, CK.NEGATIVE_CONDITIONS_REMOVING),
        "quantifiers": (C.QuantifiersRemover, CK.QUANTIFIERS_REMOVING),
        "usertype_fluents": (UsertypeFluentsRemover, CK.USERTYPE_FLUENTS_REMOVING),
        "bounded_types": (C.BoundedTypesRemover, CK.BOUNDED_TYPES_REMOVING),
        "state_invariants": (C.StateInvariantsRemover, CK.STATE_INVARIANTS_REMOVING),
        "trajectory": (TrajectoryConstraintsRemover, CK.TRAJECTORY_CONSTRAINTS_REMOVING),
        "undefined_numeric": (UndefinedInitialNumericRemover, CK.UNDEFINED_INITIAL_NUMERIC_REMOVING),
    }
    return table[name]


# second profiles, drawn 30% of the time: inputs that LACK the feature the compiler is named after, where
# "nothing to do" shortcuts and kind bookkeeping live (e.g. negated quantifiers without any disjunction)
VARIANTS: Dict[str, gen.Profile] = {
    "disjunctive": gen.Profile(invariants=False, disjunction=False, implies_iff=False, neg_quant_bias=True, forall_effects=False, **_BASE),
    "negative": gen.Profile(negation=False, **_BASE),
    "quantifiers": gen.Profile(quantifiers=False, **_BASE),
    "cond_effects": gen.Profile(cond_effects=False, **_BASE),
}
NAMES = list(PROFILES)
WEIGHTS = {"trajectory": 4, "bounded_types": 2, "cond_effects": 2, "negative": 2, "grounder": 2, "disjunctive": 2, "quantifiers": 2}
PIPELINES = [
    ["quantifiers", "disjunctive"],
    ["cond_effects", "negative"],
    ["quantifiers", "cond_effects", "disjunctive", "negative"],
    ["usertype_fluents", "grounder"],
    ["bounded_types", "grounder"],
    ["state_invariants", "negative"],
]


def cases(names=None, with_pipelines=True, name_pool=None):
    names = names or NAMES

    @st.composite
    def strat(draw):
        # single compilers carry WEIGHTS (the trajectory remover has by far the largest rewrite and
        # the rarest trigger shapes), pipelines weight 1
        slots = [[n] for n in names for _ in range(WEIGHTS.get(n, 1))] + (PIPELINES if with_pipelines else [])
        comp = slots[draw(st.integers(0, len(slots) - 1))]
        # the profile of the first stage restricted by the later stages' needs
        prof = PROFILES[comp[0]]
        if len(comp) == 1 and comp[0] in VARIANTS and draw(st.integers(0, 9)) < 3:
            prof = VARIANTS[comp[0]]
        if len(comp) > 1:
            kw = dict(_BASE)
            if "disjunctive" in comp:
                kw["invariants"] = False
            prof = gen.Profile(**kw)
        if name_pool is not None:
            prof = gen.Profile(**{**prof.__dict__, "names": name_pool})
        p = gen.Gen(draw, prof).problem()
        return {"compilers": comp, "problem": p}

    return strat()


class Compiled:
    def __init__(self, case):
        self.case = case
        self.spec, self.b, self.ref = normalize_spec(case["problem"])
        self.problem = self.b.problem
        self.results = []
        self.stage_inputs = []
        self.unsupported = None

    def compile(self):
        """Runs the (pipeline of) compilers.  Returns False if some stage does not support
        its input kind (counted, not a violation)."""
        cur = self.problem
        for name in self.case["compilers"]:
            cls, ck = compiler_class(name)
            if not cls.supports(cur.kind):
                self.unsupported = (name, sorted(cur.kind.features - cls.supported_kind().features))
                return False
            self.stage_inputs.append(cur)
            comp = cls()
            res = comp.compile(cur, ck)
            self.results.append(res)
            cur = res.problem
        self.compiled = cur
        return True

    def map_back_instance(self, ai):
        """compiled ActionInstance -> original ActionInstance (or None)"""
        for res in reversed(self.results):
            if ai is None:
                return None
            ai = res.map_back_action_instance(ai)
        return ai

    def to_instance(self, problem, step):
        from unified_planning.plans import ActionInstance

        a, args = step
        return ActionInstance(a, params_fnodes(problem, problem.environment.expression_manager, a, args))

    def map_back_plan(self, steps):
        """list of compiled (action, args) -> list of original (action, args)"""
        out = []
        for st_ in steps:
            ai = self.map_back_instance(self.to_instance(self.compiled, st_))
            if ai is None:
                continue
            out.append((ai.action, tuple(const_value(p) for p in ai.actual_parameters)))
        return out


def describe(steps):
    return [[a.name, list(map(str, args))] for a, args in steps]


def disjunctive_incdec_trigger(spec) -> bool:
    """True when some increase / decrease effect has a condition containing a disjunction (or / implies / iff, or a
    negated conjunction): the DisjunctiveConditionsRemover then emits one copy of the effect per disjunct and the
    copies all fire when several disjuncts hold (known finding)."""

    def disj(e, neg=False):
        if not isinstance(e, list) or not e:
            return False
        op = e[0]
        if op in ("implies", "iff"):
            return True
        if op == "not":
            return disj(e[1], not neg)
        if op in ("or", "exists"):
            return (not neg) or any(disj(x, neg) for x in e[1:] if isinstance(x, list))
        if op in ("and", "forall"):
            return neg or any(disj(x, neg) for x in e[1:] if isinstance(x, list))
        return False

    return any(e.get("kind") in ("inc", "dec") and e.get("cond") is not None and disj(e["cond"]) for a in spec["actions"] for e in a.get("eff", []))
