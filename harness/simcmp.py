"""Shared helpers comparing UP's sequential simulator / states with refsim."""

from __future__ import annotations

from fractions import Fraction
from typing import Any, Dict, List, Tuple

from unified_planning.exceptions import UPStateMissingFluentError

from .build import Built, build
from .core import Abstain, HarnessError, Violation
from .refsim import UNDEF, Evaluator, Inapplicable, RefSim, const_value, freeze


def to_fnode(b_or_em, v):
    em = getattr(b_or_em, "em", b_or_em)
    if isinstance(v, bool):
        return em.Bool(v)
    if isinstance(v, Fraction):
        return em.Int(int(v)) if v.denominator == 1 else em.Real(v)
    raise TypeError(v)


def params_fnodes(problem, em, action, args):
    out = []
    for p, a in zip(action.parameters, args):
        if p.type.is_user_type():
            out.append(em.ObjectExp(problem.object(a)))
        elif p.type.is_bool_type():
            out.append(em.Bool(a))
        elif p.type.is_int_type():
            out.append(em.Int(int(a)))
        else:
            out.append(em.Real(Fraction(a)))
    return tuple(out)


def ground_fluent_exps(problem, ref: RefSim):
    em = problem.environment.expression_manager
    out = []
    for f, args in ref.gf:
        fargs = []
        for p, a in zip(f.signature, args):
            if p.type.is_user_type():
                fargs.append(em.ObjectExp(problem.object(a)))
            elif p.type.is_bool_type():
                fargs.append(em.Bool(a))
            else:
                fargs.append(em.Int(int(a)))
        out.append(((f.name, args), em.FluentExp(f, tuple(fargs))))
    return out


def read_up_state(state, gfe) -> Dict:
    out = {}
    for key, fe in gfe:
        try:
            out[key] = const_value(state.get_value(fe))
        except UPStateMissingFluentError:
            out[key] = UNDEF
    return out


def diff_states(a: Dict, b: Dict) -> List[str]:
    out = []
    for k in a:
        va, vb = a[k], b.get(k, UNDEF)
        if (va is UNDEF) != (vb is UNDEF) or (va is not UNDEF and (type(va) is bool) != (type(vb) is bool)) or (va is not UNDEF and va != vb):
            out.append(f"{k[0]}{list(k[1])}: ref={va} up={vb}")
    return out


def normalize_spec(spec: dict, drop_traj_always=True) -> Tuple[dict, Built, RefSim]:
    """Builds the problem; drops 'always' invariants that are not (certainly) true in
    the initial state, so get_initial_state does not hit the documented
    UPProblemDefinitionError.  Returns (normalized spec, built, reference simulator)."""
    b = build(spec)
    ref = RefSim(b.problem)
    s0 = ref.initial_state()
    keep = []
    changed = False
    E = ref.E
    for idx, t in enumerate(spec.get("traj", [])):
        if b.expr(t).simplify().is_bool_constant():
            # add_trajectory_constraint simplifies: a constant constraint is no constraint
            changed = True
            continue
        if t[0] != "always":
            keep.append(t)
            continue
        n = b.expr(t[1])
        try:
            v, touched = E.ev(n, s0, {}, {})
        except Abstain:
            v, touched = UNDEF, True
        if v is True and not touched:
            keep.append(t)
        else:
            changed = True
    if changed:
        spec = dict(spec)
        spec["traj"] = keep
        b = build(spec)
        ref = RefSim(b.problem)
    return spec, b, ref
