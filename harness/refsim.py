"""Reference expression evaluator and sequential semantics (DESIGN 2.3).

Reads unified_planning *model objects* through read-only accessors only
(FNode.node_type/args/payload accessors, Action.parameters/preconditions/effects,
Effect.fluent/value/condition/kind/forall, Problem.fluents/all_objects/
explicit_initial_values/fluents_defaults/goals/state_invariants).  It uses none of
UP's walkers, simplifier, grounder, substituter or state classes.

Values: bool, Fraction, or str (object name).  UNDEF is a singleton.
Evaluation is Kleene-3-valued *and* tracks whether any undefined fluent was read
("strict" reading).  ``ev`` returns (value_or_UNDEF, touched_undef).
"""

from __future__ import annotations

from fractions import Fraction
from itertools import product
from typing import Any, Dict, List, Optional, Tuple

from unified_planning.model.operators import OperatorKind as OK

from .core import Abstain


class _Undef:
    def __repr__(self):
        return "UNDEF"


UNDEF = _Undef()


class RefError(Exception):
    pass


def type_objects(problem, t) -> List[str]:
    """Names of declared objects whose type is t or a descendant (declaration order)."""
    out = []
    for o in problem.all_objects:
        ot = o.type
        while ot is not None:
            if ot == t:
                out.append(o.name)
                break
            ot = ot.father
    return out


def type_domain(problem, t) -> List[Any]:
    if t.is_bool_type():
        return [False, True]
    if t.is_user_type():
        return type_objects(problem, t)
    if t.is_int_type() and t.lower_bound is not None and t.upper_bound is not None:
        return [Fraction(i) for i in range(t.lower_bound, t.upper_bound + 1)]
    raise RefError(f"infinite domain {t}")


def const_value(n) -> Any:
    nt = n.node_type
    if nt == OK.BOOL_CONSTANT:
        return bool(n.constant_value())
    if nt in (OK.INT_CONSTANT, OK.REAL_CONSTANT):
        return Fraction(n.constant_value())
    if nt == OK.OBJECT_EXP:
        return n.object().name
    raise RefError(f"not a constant: {n}")


class Evaluator:
    """Evaluates FNodes under (state, parameter binding, variable binding)."""

    def __init__(self, problem, agent=None):
        self.problem = problem
        self.agent = agent  # for multi-agent name resolution (see C37)

    def read(self, state, key):
        return state.get(key, UNDEF)

    def fluent_key(self, fluent, args, dot=None):
        return (fluent.name, tuple(args))

    def ev(self, n, state, pb, vb, dot=None) -> Tuple[Any, bool]:
        nt = n.node_type
        if nt == OK.BOOL_CONSTANT:
            return bool(n.constant_value()), False
        if nt in (OK.INT_CONSTANT, OK.REAL_CONSTANT):
            return Fraction(n.constant_value()), False
        if nt == OK.OBJECT_EXP:
            return n.object().name, False
        if nt == OK.PARAM_EXP:
            return pb[n.parameter().name], False
        if nt == OK.VARIABLE_EXP:
            v = n.variable()
            if (v.name, v.type) not in vb:
                # a variable outside every quantifier: the expression is ill-formed and has no value; whether a
                # compiler may produce such a thing is C08's question (well-formedness), not the reference's
                raise Abstain("unbound-variable-in-expression")
            return vb[(v.name, v.type)], False
        if nt == OK.FLUENT_EXP:
            args = []
            touched = False
            for a in n.args:
                v, t = self.ev(a, state, pb, vb, dot)
                touched |= t
                args.append(v)
            if any(a is UNDEF for a in args):
                return UNDEF, True
            v = self.read(state, self.fluent_key(n.fluent(), args, dot))
            return v, touched or v is UNDEF
        if nt == OK.DOT:
            return self.ev(n.arg(0), state, pb, vb, n.agent())
        if nt == OK.INTERPRETED_FUNCTION_EXP:
            args = []
            touched = False
            for a in n.args:
                v, t = self.ev(a, state, pb, vb, dot)
                touched |= t
                args.append(v)
            if any(a is UNDEF for a in args):
                return UNDEF, True
            f = n.interpreted_function().function
            pv = getattr(f, "pyvalue", None)
            if pv is None:
                raise Abstain("foreign-interpreted-function")
            r = pv([int(a) if isinstance(a, Fraction) and a.denominator == 1 else a for a in args])
            if isinstance(r, bool) or isinstance(r, str):
                return r, touched
            return Fraction(r), touched
        if nt == OK.NOT:
            v, t = self.ev(n.arg(0), state, pb, vb, dot)
            return (UNDEF if v is UNDEF else (not v)), t
        if nt in (OK.AND, OK.OR):
            absorbing = nt == OK.OR
            touched = False
            seen_undef = False
            hit = False
            for a in n.args:
                v, t = self.ev(a, state, pb, vb, dot)
                touched |= t
                if v is UNDEF:
                    seen_undef = True
                elif v == absorbing:
                    hit = True
            if hit:
                return absorbing, touched
            if seen_undef:
                return UNDEF, touched
            return (not absorbing), touched
        if nt == OK.IMPLIES:
            a, ta = self.ev(n.arg(0), state, pb, vb, dot)
            b, tb = self.ev(n.arg(1), state, pb, vb, dot)
            t = ta or tb
            if a is False or b is True:
                return True, t
            if a is UNDEF or b is UNDEF:
                return UNDEF, t
            return False, t
        if nt == OK.IFF:
            a, ta = self.ev(n.arg(0), state, pb, vb, dot)
            b, tb = self.ev(n.arg(1), state, pb, vb, dot)
            if a is UNDEF or b is UNDEF:
                return UNDEF, True
            return a == b, ta or tb
        if nt in (OK.EXISTS, OK.FORALL):
            absorbing = nt == OK.EXISTS
            vs = n.variables()
            doms = [type_objects(self.problem, v.type) for v in vs]
            touched = False
            seen_undef = False
            hit = False
            for combo in product(*doms):
                vb2 = dict(vb)
                for v, o in zip(vs, combo):
                    vb2[(v.name, v.type)] = o
                r, t = self.ev(n.arg(0), state, pb, vb2, dot)
                touched |= t
                if r is UNDEF:
                    seen_undef = True
                elif r == absorbing:
                    hit = True
            if hit:
                return absorbing, touched
            if seen_undef:
                return UNDEF, touched
            return (not absorbing), touched
        if nt in (OK.PLUS, OK.TIMES, OK.MINUS, OK.DIV, OK.LE, OK.LT, OK.EQUALS):
            vals = []
            touched = False
            for a in n.args:
                v, t = self.ev(a, state, pb, vb, dot)
                touched |= t
                vals.append(v)
            if any(v is UNDEF for v in vals):
                return UNDEF, True
            if nt == OK.PLUS:
                return sum(vals, Fraction(0)), touched
            if nt == OK.TIMES:
                r = Fraction(1)
                for v in vals:
                    r *= v
                return r, touched
            if nt == OK.MINUS:
                return vals[0] - vals[1], touched
            if nt == OK.DIV:
                if vals[1] == 0:
                    raise Abstain("div-by-zero")
                return vals[0] / vals[1], touched
            if nt == OK.LE:
                return vals[0] <= vals[1], touched
            if nt == OK.LT:
                return vals[0] < vals[1], touched
            a, b = vals
            if isinstance(a, bool) != isinstance(b, bool) or isinstance(a, str) != isinstance(b, str):
                return False, touched
            return a == b, touched
        raise RefError(f"cannot evaluate node type {nt}")

    # verdict helpers -----------------------------------------------------
    # The documented rule is strict ("an expression that refers to an undefined state
    # variable makes the solution invalid") but the documentation also allows engines to
    # be lazy (``true or undefined`` may count as true), and UP simplifies expressions
    # before evaluating them (``f -> f`` becomes true without reading f).  So when an
    # undefined fluent is read the verdict is only *certain* if no completion of the
    # undefined fluents could make a lazy evaluator succeed: we evaluate the expression
    # under a deterministic family of completions; if they do not all agree the
    # expression is certainly undefined, otherwise the case is abstained.
    def completions(self, state):
        import zlib

        undef = [k for k, v in state.items() if v is UNDEF]
        if not undef:
            return
        doms = {}
        for k in undef:
            t = self.ftype_of(k)
            if t.is_bool_type():
                doms[k] = [False, True]
            elif t.is_user_type():
                doms[k] = type_objects(self.problem, t) or [None]
            else:
                doms[k] = [Fraction(0), Fraction(1), Fraction(-1), Fraction(2), Fraction(-3), Fraction(5)]
                if t.is_real_type():
                    doms[k].append(Fraction(1, 2))
        for j in range(14):
            c = dict(state)
            for k in undef:
                d = doms[k]
                if j == 0:
                    idx = 0
                elif j == 1:
                    idx = len(d) - 1
                else:
                    idx = (zlib.crc32(repr(k).encode()) // 7 + j * (1 + zlib.crc32(repr(k).encode()) % 5)) % len(d)
                c[k] = d[idx]
                if c[k] is None:
                    c[k] = UNDEF
            yield c

    def ftype_of(self, key):
        if not hasattr(self, "_ftypes"):
            self._ftypes = {f.name: f.type for f in self.problem.fluents}
        return self._ftypes[key[0]]

    def holds(self, n, state, pb=None, vb=None) -> bool:
        """Condition / goal / invariant: satisfied iff it evaluates to True."""
        v, touched = self.ev(n, state, pb or {}, vb or {})
        if not touched:
            return v is True
        for c in self.completions(state):
            if self.ev(n, c, pb or {}, vb or {})[0] is not True:
                return False  # no lazy reading can make it true
        raise Abstain("lazy-vs-strict")

    def value(self, n, state, pb=None, vb=None):
        """Right-hand sides / target arguments / effect conditions.  Returns a value, or
        UNDEF when the expression certainly depends on an undefined fluent."""
        v, touched = self.ev(n, state, pb or {}, vb or {})
        if not touched:
            return v
        seen = None
        first = True
        for c in self.completions(state):
            w = self.ev(n, c, pb or {}, vb or {})[0]
            if first:
                seen, first = w, False
            elif w != seen or (isinstance(w, bool) != isinstance(seen, bool)):
                return UNDEF
        raise Abstain("lazy-vs-strict")


# ----------------------------------------------------------------- states


def ground_fluents(problem) -> List[Tuple[Any, Tuple]]:
    out = []
    for f in problem.fluents:
        doms = [type_domain(problem, p.type) for p in f.signature]
        for combo in product(*doms):
            out.append((f, tuple(combo)))
    return out


def initial_state(problem) -> Dict:
    """explicit initial values, else the per-fluent default, else UNDEF."""
    ev = Evaluator(problem)
    state = {}
    explicit = {}
    for fe, v in problem.explicit_initial_values.items():
        args = tuple(const_value(a) for a in fe.args)
        explicit[(fe.fluent().name, args)] = const_value(v)
    defaults = problem.fluents_defaults
    for f, args in ground_fluents(problem):
        k = (f.name, args)
        if k in explicit:
            state[k] = explicit[k]
        elif f in defaults and defaults[f] is not None:
            state[k] = const_value(defaults[f])
        else:
            state[k] = UNDEF
    return state


def freeze(state) -> Tuple:
    return tuple(sorted(((k, ("U" if v is UNDEF else v)) for k, v in state.items()), key=lambda kv: repr(kv[0])))


class Inapplicable(Exception):
    def __init__(self, reason):
        super().__init__(reason)
        self.reason = reason


class RefSim:
    """Sequential semantics of C01, executable."""

    def __init__(self, problem, check_bounds=True, check_invariants=True):
        self.problem = problem
        self.E = Evaluator(problem)
        self.gf = ground_fluents(problem)
        self.ftype = {f.name: f.type for f in problem.fluents}
        self.check_bounds = check_bounds
        self.check_invariants = check_invariants
        self.invariants = list(problem.state_invariants) if check_invariants else []
        self.info: Dict[str, Any] = {}

    def initial_state(self):
        return initial_state(self.problem)

    def instances(self, action) -> List[Tuple]:
        doms = [type_domain(self.problem, p.type) for p in action.parameters]
        return list(product(*doms))

    def binding(self, action, args) -> Dict[str, Any]:
        return {p.name: a for p, a in zip(action.parameters, args)}

    def goal(self, state) -> bool:
        return all(self.E.holds(g, state) for g in self.problem.goals)

    def state_ok(self, state) -> Optional[str]:
        """Bounds and invariants in a (successor) state; returns a reason or None."""
        if self.check_bounds:
            for f, args in self.gf:
                t = f.type
                if (t.is_int_type() or t.is_real_type()) and (t.lower_bound is not None or t.upper_bound is not None):
                    v = state[(f.name, args)]
                    if v is UNDEF:
                        raise Abstain("bounds-on-undefined")
                    if t.lower_bound is not None and v < t.lower_bound:
                        return "bound"
                    if t.upper_bound is not None and v > t.upper_bound:
                        return "bound"
        for inv in self.invariants:
            if not self.E.holds(inv, state):
                return "invariant"
        return None

    def expand(self, eff):
        """Yields variable bindings for a (possibly forall) effect."""
        vs = eff.forall
        if not vs:
            yield {}
            return
        doms = [type_objects(self.problem, v.type) for v in vs]
        for combo in product(*doms):
            yield {(v.name, v.type): o for v, o in zip(vs, combo)}

    def apply(self, state, action, args, info: Optional[dict] = None) -> Dict:
        """Returns the successor or raises Inapplicable(reason) / Abstain."""
        info = info if info is not None else {}
        pb = self.binding(action, args)
        E = self.E
        for c in action.preconditions:
            if not E.holds(c, state, pb):
                v, touched = E.ev(c, state, pb, {})
                info["undef_read"] = info.get("undef_read") or touched
                raise Inapplicable("precondition")
        assigns: Dict[Any, List[Any]] = {}
        val_nodes: Dict[Any, set] = {}
        deltas: Dict[Any, List[Fraction]] = {}
        written_lifted = set()
        for eff in action.effects:
            n_exp = 0
            for vb in self.expand(eff):
                n_exp += 1
                targs = []
                for a in eff.fluent.args:
                    v = E.value(a, state, pb, vb)
                    if v is UNDEF:
                        info["undef_read"] = True
                        raise Inapplicable("undefined-target-argument")
                    targs.append(v)
                key = (eff.fluent.fluent().name, tuple(targs))
                if eff.is_conditional():
                    cv = E.value(eff.condition, state, pb, vb)
                    if cv is UNDEF:
                        info["undef_read"] = True
                        raise Inapplicable("undefined-effect-condition")
                    if cv is not True:
                        continue
                val = E.value(eff.value, state, pb, vb)
                if val is UNDEF:
                    info["undef_read"] = True
                    raise Inapplicable("undefined-effect-value")
                if eff.is_assignment():
                    assigns.setdefault(key, []).append(val)
                    val_nodes.setdefault(key, set()).add(eff.value)
                elif eff.is_increase():
                    deltas.setdefault(key, []).append(val)
                elif eff.is_decrease():
                    deltas.setdefault(key, []).append(-val)
                else:
                    raise RefError("unsupported effect kind")
            if n_exp >= 2:
                info["forall_expanded"] = True
        succ = dict(state)
        for key, vals in assigns.items():
            if key in deltas:
                raise Abstain("assign+incdec")
            t = self.ftype[key[0]]
            distinct = set(vals)
            if t.is_bool_type():
                if len(distinct) > 1:
                    info["add_after_delete"] = True
                succ[key] = True if True in distinct else False
            else:
                if len(distinct) > 1:
                    info["conflict"] = True
                    raise Inapplicable("conflicting-assignments")
                if len(vals) > 1:
                    if len(val_nodes[key]) > 1:
                        # equal values written with different expressions: the statement only
                        # speaks of "two different values"; UP compares the expressions
                        raise Abstain("same-value-different-syntax")
                    info["double_assign_same"] = True
                succ[key] = vals[0]
        for key, ds in deltas.items():
            cur = state.get(key, UNDEF)
            if cur is UNDEF:
                info["undef_read"] = True
                raise Inapplicable("increase-of-undefined")
            if len(ds) > 1:
                info["accumulate"] = True
            succ[key] = cur + sum(ds, Fraction(0))
        why = self.state_ok(succ)
        if why is not None:
            info["succ_" + why] = True
            raise Inapplicable(why)
        return succ

    def try_apply(self, state, action, args, info=None):
        try:
            return self.apply(state, action, args, info), None
        except Inapplicable as i:
            return None, i.reason


def up_value(n) -> Any:
    """constant FNode -> reference value"""
    return const_value(n)
