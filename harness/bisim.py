"""Bisimulation of two problems under a name mapping, with the reference semantics."""

from __future__ import annotations

from fractions import Fraction
from typing import Dict

from .core import Abstain, Violation
from .refsim import UNDEF, RefSim, freeze


def map_value(v, omap):
    if isinstance(v, str):
        return omap[v]
    return v


def map_state(s1, fmap, omap):
    out = {}
    for (name, args), v in s1.items():
        out[(fmap[name], tuple(map_value(a, omap) for a in args))] = UNDEF if v is UNDEF else map_value(v, omap)
    return out


def bisimulate(ctx, p1, p2, fmap, omap, amap, depth, case, sig_prefix="", max_states=60, ignore_extra_fluents=()):
    """p1 original, p2 the other; maps are name dicts p1 -> p2.  Raises Violation on the first
    difference; returns the number of state pairs compared."""
    r1, r2 = RefSim(p1), RefSim(p2)
    a2 = {a.name: a for a in p2.actions}
    s1, s2 = r1.initial_state(), r2.initial_state()

    def compare(m1, t2, where):
        for k, v in m1.items():
            w = t2.get(k, "MISSING")
            if w == "MISSING":
                raise Violation(sig_prefix + "fluent-missing", f"{where}: ground fluent {k} has no counterpart in the other problem", case)
            if (v is UNDEF) != (w is UNDEF) or (v is not UNDEF and (v != w or isinstance(v, bool) != isinstance(w, bool))):
                raise Violation(sig_prefix + ("initial-state-differs" if where == "initial state" else "successor-differs"), f"{where}: {k} is {v} in the original and {w} in the other problem", case)
        extra = [k for k in t2 if k not in m1 and k[0] not in ignore_extra_fluents]
        if extra and where == "initial state":
            raise Violation(sig_prefix + "extra-fluents", f"the other problem has ground fluents without original: {extra[:4]}", case)

    compare(map_state(s1, fmap, omap), s2, "initial state")
    seen = {freeze(s1)}
    frontier = [(s1, s2, [])]
    pairs = 0
    for level in range(depth + 1):
        nxt = []
        for t1, t2, path in frontier:
            pairs += 1
            try:
                g1, g2 = r1.goal(t1), r2.goal(t2)
            except Abstain as ab:
                ctx.abstain(ab.reason)
                g1 = g2 = None
            if g1 != g2:
                raise Violation(sig_prefix + "goal-verdict-differs", f"after {path}: goal is {g1} in the original and {g2} in the other problem", case)
            for a in p1.actions:
                if a.name not in amap or amap[a.name] not in a2:
                    raise Violation(sig_prefix + "action-missing", f"action {a.name} has no counterpart", case)
                b = a2[amap[a.name]]
                for args in r1.instances(a):
                    step = [a.name, list(map(str, args))]
                    try:
                        n1, why1 = r1.try_apply(t1, a, args)
                        n2, why2 = r2.try_apply(t2, b, tuple(map_value(x, omap) for x in args))
                    except Abstain as ab:
                        ctx.abstain(ab.reason)
                        continue
                    except KeyError as ke:
                        raise Violation(sig_prefix + "instance-missing", f"{step}: {ke!r}", case)
                    ctx.evaluations += 1
                    if (n1 is None) != (n2 is None):
                        raise Violation(
                            sig_prefix + "applicability-differs",
                            f"after {path}, {step}: {'applicable' if n1 is not None else 'inapplicable (' + str(why1) + ')'} in the original, "
                            f"{'applicable' if n2 is not None else 'inapplicable (' + str(why2) + ')'} in the other problem",
                            case,
                        )
                    if n1 is None:
                        continue
                    compare(map_state(n1, fmap, omap), n2, f"after {path + [step]}")
                    k = freeze(n1)
                    if k not in seen and level < depth and len(seen) < max_states:
                        seen.add(k)
                        nxt.append((n1, n2, path + [step]))
        frontier = nxt
        if not frontier:
            break
    return pairs, len(seen)
