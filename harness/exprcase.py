"""Expression cases: a small signature + one or more expression specs, and
deterministic families of interpretations for the reference evaluator."""

from __future__ import annotations

import random
from fractions import Fraction
from itertools import product
from typing import Any, Dict, List, Optional, Tuple

from hypothesis import strategies as st

from . import gen
from .build import Built, build, frac
from .refsim import UNDEF, Evaluator, ground_fluents, type_domain, type_objects


def signature_and_exprs(profile: gen.Profile, n_bool=1, n_num=0, depth=3, nparams=2, nfree=1):
    """Strategy -> {"sig": problem spec (no actions), "params": [[n,t]], "free": [[n,t]],
    "bool": [exprs], "num": [exprs]}"""

    @st.composite
    def strat(draw):
        g = gen.Gen(draw, profile)
        g.gen_types()
        g.gen_fluents()
        g.gen_ifuns()
        params = []
        for k in range(g.i(0, nparams)):
            kind = g.i(0, 3)
            if kind == 0 and profile.int_params:
                params.append([f"p{k}", ["int", 0, 3]])
            elif kind == 1 and profile.int_params:
                params.append([f"p{k}", g.num_type("int")])
            else:
                params.append([f"p{k}", ["user", g.pick(g.types)[0]]])
        free = [[f"w{k}", ["user", g.pick(g.types)[0]]] for k in range(g.i(0, nfree))]
        scope = {"params": [(n, t) for n, t in params], "vars": [(n, t) for n, t in free]}
        bools = [g.bool_expr(scope, g.i(1, depth)) for _ in range(n_bool)]
        nums = [g.num_expr(scope, g.i(1, depth)) for _ in range(n_num)]
        sig = {
            "types": [list(t) for t in g.types],
            "objects": [list(o) for o in g.objects],
            "fluents": g.fluents,
            "ifuns": g.ifuns,
        }
        return {"sig": sig, "params": params, "free": free, "bool": bools, "num": nums, "iseed": g.i(0, 2**20)}

    return strat()


def build_case(case, env=None) -> Built:
    b = build(case["sig"], env)
    from unified_planning.model import Parameter

    b.params = {n: Parameter(n, b.typ(t), b.env) for n, t in case.get("params", [])}
    return b


def consts_in(spec, out):
    if isinstance(spec, list):
        if spec and spec[0] == "i":
            out.add(Fraction(spec[1]))
        elif spec and spec[0] == "r":
            out.add(Fraction(spec[1]))
        else:
            for s in spec:
                consts_in(s, out)


def numeric_candidates(t, consts, rng, big=False) -> List[Fraction]:
    lo = None if t.lower_bound is None else Fraction(t.lower_bound)
    hi = None if t.upper_bound is None else Fraction(t.upper_bound)
    cands = {Fraction(0), Fraction(1), Fraction(-1), Fraction(2), Fraction(-3), Fraction(7)}
    for c in consts:
        if abs(c) < 10**6 or big:
            cands |= {c, c - 1, c + 1}
    if t.is_real_type():
        cands |= {Fraction(1, 2), Fraction(-3, 2)} | {c + Fraction(1, 3) for c in list(cands)[:3]}
    if big:
        cands |= {Fraction(2**53 + 1), Fraction(-(2**61) - 3)}
    if lo is not None:
        cands |= {lo, lo + 1}
    if hi is not None:
        cands |= {hi, hi - 1}
    if t.is_int_type():
        cands = {c for c in cands if c.denominator == 1}
    cands = sorted(c for c in cands if (lo is None or c >= lo) and (hi is None or c <= hi))
    if not cands:
        cands = [lo if lo is not None else hi]
    return cands


def interpretations(b: Built, case, exprs_specs, n: int, big=False, pinned: Optional[Dict] = None):
    """Yields (state, pb, vb).  Boolean / object leaves exhaustively when the product is
    <= 256, otherwise sampled with a PRNG seeded from the case's drawn ``iseed``."""
    problem = b.problem
    rng = random.Random(case.get("iseed", 0))
    consts = set()
    consts_in(exprs_specs, consts)
    gfs = ground_fluents(problem)
    keys = []
    doms = []
    for f, args in gfs:
        k = (f.name, args)
        if pinned is not None and k in pinned:
            continue
        t = f.type
        if t.is_bool_type():
            d = [False, True]
        elif t.is_user_type():
            d = type_objects(problem, t)
            if not d:
                d = [UNDEF]
        else:
            d = numeric_candidates(t, consts, rng, big)
        keys.append(k)
        doms.append(d)
    pdoms = []
    for pn, pt in case.get("params", []):
        t = b.typ(pt)
        if t.is_user_type():
            pdoms.append(type_objects(problem, t))
        elif t.is_bool_type():
            pdoms.append([False, True])
        else:
            pdoms.append(numeric_candidates(t, consts, rng, big))
    vdoms = [type_objects(problem, b.typ(vt)) for _, vt in case.get("free", [])]
    if any(len(d) == 0 for d in pdoms + vdoms):
        return
    alld = doms + pdoms + vdoms
    total = 1
    for d in alld:
        total *= len(d)
        if total > 256:
            break

    def mk(choice):
        state = dict(pinned) if pinned else {}
        for k, v in zip(keys, choice[: len(keys)]):
            state[k] = v
        pb = {pn: v for (pn, _), v in zip(case.get("params", []), choice[len(keys) : len(keys) + len(pdoms)])}
        vb = {}
        for (vn, vt), v in zip(case.get("free", []), choice[len(keys) + len(pdoms) :]):
            vb[(vn, b.typ(vt))] = v
        return state, pb, vb

    if total <= min(256, max(n, 64)):
        for choice in product(*alld):
            yield mk(choice)
    else:
        # corners first, then random
        yield mk([d[0] for d in alld])
        yield mk([d[-1] for d in alld])
        for _ in range(n - 2):
            yield mk([d[rng.randrange(len(d))] for d in alld])
