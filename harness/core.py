"""Runner core: context, counters, violations, sharding, evidence, known findings.

Every check module in ``checks/`` exposes

    PROPERTY = "Cxx"
    RULE     = "how cases are generated and what counts as non-trivial"
    def shard(ctx):        # runs in a worker process, uses ctx.* helpers
    SHARDS = {"quick": n, "thorough": m}       (optional, default 8 / 16)
    def replay(ctx, case): # re-runs only the oracle on a saved case (raises Violation)

Exit codes: 0 held (possibly with KNOWN-FINDING lines), 1 VIOLATION, 2 harness error.
"""

from __future__ import annotations

import hashlib
import json
import os
import sys
import time
import traceback
from collections import Counter
from fractions import Fraction
from typing import Any, Callable, Dict, List, Optional

ROOT = os.path.dirname(os.path.dirname(os.path.abspath(__file__)))
# Where evidence/ and out/ are written.  Registered commands never set VERIF_OUT_DIR (so they
# write /verif/evidence); mutant / seeded-change runs against scratch worktrees set it so that
# they cannot overwrite the evidence of the unchanged tree.
OUT_ROOT = os.environ.get("VERIF_OUT_DIR") or ROOT


class Violation(Exception):
    """Raised by an oracle: the property does not hold on ``case``."""

    def __init__(self, sig: str, message: str, case: Any = None, extra: Any = None):
        super().__init__(f"[{sig}] {message}")
        self.sig = sig
        self.message = message
        self.case = case
        self.extra = extra


class Abstain(Exception):
    """Raised by an oracle / reference model: statement does not settle this case."""

    def __init__(self, reason: str):
        super().__init__(reason)
        self.reason = reason


class HarnessError(Exception):
    """Something is wrong with the harness itself (never a violation)."""


class StopShrink(BaseException):
    """Aborts Hypothesis once the shrink budget is used up."""


class CaseTimeout(BaseException):  # BaseException: the many 'except Exception' handlers around calls into the library must not swallow it
    """The code under test used more CPU time than the per-case watchdog allows (non-termination)."""


CASE_TIMEOUT_S = int(os.environ.get("VERIF_CASE_TIMEOUT_S", "150"))


def _alarm(signum, frame):
    raise CaseTimeout()


def _reset_tracebacklimit():
    # the third-party `pddl` parser sets sys.tracebacklimit = 0 and does not restore it when
    # parsing fails; Hypothesis needs tracebacks to locate the failing frame
    if hasattr(sys, "tracebacklimit"):
        del sys.tracebacklimit


def jdefault(o):
    if isinstance(o, Fraction):
        return str(o)
    if isinstance(o, (set, frozenset)):
        return sorted(map(str, o))
    if isinstance(o, tuple):
        return list(o)
    return repr(o)


def jdump(o) -> str:
    return json.dumps(o, sort_keys=True, default=jdefault)


def case_hash(o) -> str:
    return hashlib.sha1(jdump(o).encode()).hexdigest()[:16]


def load_known() -> List[dict]:
    p = os.path.join(ROOT, "known_findings.json")
    if not os.path.exists(p):
        return []
    with open(p) as f:
        data = json.load(f)
    return data.get("findings", [])


class Ctx:
    """Per-shard context handed to check code."""

    def __init__(self, prop: str, tier: str, seed: int, shard: int, nshards: int):
        self.prop = prop
        self.tier = tier
        self.seed = seed
        self.shard = shard
        self.nshards = nshards
        self.evaluations = 0
        self.nontrivial: set = set()
        self.classes: Counter = Counter()
        self.abstained: Counter = Counter()
        self.excluded_known: Counter = Counter()
        self.samples: List[Any] = []
        self.extra: Dict[str, Any] = {}
        self.exhaustive: Optional[bool] = None
        self.known_sigs = {
            k["signature"]
            for k in load_known()
            if k.get("property") == prop and k.get("status", "open") == "open"
        }
        self.failure: Optional[dict] = None  # smallest failing case so far
        self._calls_after_failure = 0
        self._t_first_failure = None  # wall-clock cap on SHRINKING only (never a verdict): see _shrink_spent()
        self.shrink_wall_s = 90 if tier == "quick" else 600
        self.case_timeout = CASE_TIMEOUT_S  # CPU seconds per oracle call; a check may lower it (mod.CASE_TIMEOUT_S)
        self.hang_is_violation = False  # see guard(): set from mod.HANG_IS_VIOLATION
        self.shrink_budget = 400 if tier == "quick" else 1500
        self.t0 = time.time()
        self.budget_s = float(
            os.environ.get("VERIF_BUDGET_S", "75" if tier == "quick" else "900")
        )

    # ------------------------------------------------------------ counters
    @property
    def quick(self) -> bool:
        return self.tier == "quick"

    def scale(self, quick: int, thorough: int) -> int:
        """Case count for this shard (totals are divided over the shards)."""
        total = quick if self.quick else thorough
        # VERIF_SCALE (default 1) multiplies every case budget; used for experiments / deeper ad-hoc runs only,
        # registered commands leave it unset
        total = int(total * float(os.environ.get("VERIF_SCALE", "1")))
        return max(1, total // self.nshards)

    def derived_seed(self, salt: int = 0) -> int:
        return (self.seed * 1000003 + self.shard * 7919 + salt * 104729) % (2**31 - 1)

    def out_of_time(self) -> bool:
        return time.time() - self.t0 > self.budget_s

    def cls(self, name: str, n: int = 1):
        self.classes[name] += n

    def abstain(self, reason: str):
        self.abstained[reason] += 1

    def nontriv(self, case: Any, sample: Any = None):
        if self.failure is not None:
            return  # shrinking: not part of the generate phase
        h = case if isinstance(case, str) and len(case) == 16 else case_hash(case)
        if h not in self.nontrivial:
            self.nontrivial.add(h)
            if len(self.samples) < 3:
                self.samples.append(sample if sample is not None else case)

    # ------------------------------------------------------------ oracles
    def guard(self, oracle: Callable[[Any], None], case: Any):
        """Run ``oracle(case)``; route Violations (known -> counted, new -> raise)."""
        _reset_tracebacklimit()
        try:
            if self.failure is None:
                self.evaluations += 1
            self.timed(oracle, case)
        except Abstain as a:
            self.abstain(a.reason)
        except CaseTimeout:
            # A case normally costs milliseconds.  Exceeding the CPU budget is, by default, INCONCLUSIVE (several
            # compilers are exponential by nature - DNF of expanded quantifiers - and a budget hit is never a
            # correctness signal).  Only checks whose property is about termination / decision procedures opt in
            # (HANG_IS_VIOLATION = True: C25's incremental STN, C31's planning loop); there it is reported as
            # non-termination, not shrunk (each attempt would cost the full budget).
            if not self.hang_is_violation:
                self.abstain("cpu-budget-exceeded")
                self.classes["inconclusive:cpu-budget-exceeded"] += 1
                return
            v = Violation("hang", f"no result within {self.case_timeout}s of CPU time (non-termination)", case)
            if v.sig in self.known_sigs:
                self.excluded_known[v.sig] += 1
                return
            self.failure = {"size": len(jdump(case)), "sig": v.sig, "message": v.message, "case": case, "extra": None}
            raise StopShrink()
        except Violation as v:
            if v.sig in self.known_sigs:
                self.excluded_known[v.sig] += 1
                return
            self._record_failure(v, case)
            _reset_tracebacklimit()
            # a fresh exception without context chain (Hypothesis inspects chained exceptions'
            # tracebacks and trips over some of them)
            raise Violation(v.sig, v.message, v.case, v.extra) from None
        else:
            if self.failure is not None:
                self._calls_after_failure += 1
                if self._calls_after_failure > self.shrink_budget or self._shrink_spent():
                    raise StopShrink()

    def timed(self, fn, *args):
        import signal

        # CPU time of this process (ITIMER_PROF), not wall-clock time: a loaded machine can starve a worker
        # for minutes, which must never look like non-termination; a real endless loop burns CPU
        signal.signal(signal.SIGPROF, _alarm)
        signal.setitimer(signal.ITIMER_PROF, self.case_timeout)
        try:
            return fn(*args)
        finally:
            signal.setitimer(signal.ITIMER_PROF, 0)
            _reset_tracebacklimit()

    def _shrink_spent(self) -> bool:
        if self._t_first_failure is None:
            self._t_first_failure = time.time()
            return False
        return time.time() - self._t_first_failure > self.shrink_wall_s

    def _record_failure(self, v: Violation, case: Any):
        c = v.case if v.case is not None else case
        size = len(jdump(c))
        if self.failure is None or size < self.failure["size"]:
            self.failure = {
                "size": size,
                "sig": v.sig,
                "message": v.message,
                "case": c,
                "extra": v.extra,
            }
        self._calls_after_failure += 1
        if self._calls_after_failure > self.shrink_budget or self._shrink_spent():
            raise StopShrink()

    def run_hypothesis(self, strategy, oracle: Callable[[Any], None], max_examples: int, salt: int = 0):
        """Drive ``oracle`` with cases from ``strategy``.  On a new violation the
        smallest failing case seen during (budgeted) shrinking is kept in
        ``self.failure`` and the function returns False."""
        import hypothesis
        from hypothesis import HealthCheck, Phase, given, settings

        if self.failure is not None:
            return False

        @hypothesis.seed(self.derived_seed(salt))
        @settings(
            max_examples=max_examples,
            database=None,
            deadline=None,
            derandomize=False,
            report_multiple_bugs=False,
            suppress_health_check=list(HealthCheck),
            phases=[Phase.generate, Phase.shrink],
            print_blob=False,
        )
        @given(strategy)
        def test(case):
            self.guard(oracle, case)

        try:
            test()
        except StopShrink:
            pass
        except Violation:
            pass
        except hypothesis.errors.Flaky as e:  # harness problem: oracle not deterministic
            if self.failure is None:
                raise HarnessError(f"flaky oracle: {e}")
        except BaseExceptionGroup as eg:  # pragma: no cover
            if self.failure is None:
                raise HarnessError(f"unexpected exception group {eg!r}")
        return self.failure is None

    def run_cases(self, cases, oracle: Callable[[Any], None]):
        """Drive ``oracle`` over an explicit iterable (exhaustive enumerations)."""
        for case in cases:
            if self.failure is not None:
                return False
            try:
                self.guard(oracle, case)
            except (Violation, StopShrink):
                return False
        return True

    def result(self) -> dict:
        return {
            "evaluations": self.evaluations,
            "nontrivial": sorted(self.nontrivial),
            "classes": dict(self.classes),
            "abstained": dict(self.abstained),
            "excluded_known": dict(self.excluded_known),
            "samples": self.samples,
            "extra": self.extra,
            "exhaustive": self.exhaustive,
            "failure": self.failure,
            "wall": time.time() - self.t0,
        }


# ---------------------------------------------------------------- sharded run


def _worker(args):
    modname, prop, tier, seed, shard, nshards = args
    import importlib

    sys.setrecursionlimit(10000)
    try:
        mod = importlib.import_module(modname)
        ctx = Ctx(prop, tier, seed, shard, nshards)
        ctx.case_timeout = getattr(mod, "CASE_TIMEOUT_S", ctx.case_timeout)
        ctx.hang_is_violation = getattr(mod, "HANG_IS_VIOLATION", False)
        mod.shard(ctx)
        return ctx.result()
    except BaseException as e:  # harness error inside the worker
        return {"harness_error": "".join(traceback.format_exception(type(e), e, e.__traceback__))}


def merge(results: List[dict]) -> dict:
    out = {
        "evaluations": 0,
        "nontrivial": set(),
        "classes": Counter(),
        "abstained": Counter(),
        "excluded_known": Counter(),
        "samples": [],
        "extra": {},
        "exhaustive": None,
        "failure": None,
        "harness_errors": [],
    }
    for r in results:
        if "harness_error" in r:
            out["harness_errors"].append(r["harness_error"])
            continue
        out["evaluations"] += r["evaluations"]
        out["nontrivial"].update(r["nontrivial"])
        out["classes"].update(r["classes"])
        out["abstained"].update(r["abstained"])
        out["excluded_known"].update(r["excluded_known"])
        for s in r["samples"]:
            if len(out["samples"]) < 5:
                out["samples"].append(s)
        for k, v in r["extra"].items():
            if isinstance(v, (int, float)) and not isinstance(v, bool):
                out["extra"][k] = out["extra"].get(k, 0) + v
            else:
                out["extra"].setdefault(k, v)
        if r["exhaustive"] is not None:
            out["exhaustive"] = (
                r["exhaustive"] if out["exhaustive"] is None else (out["exhaustive"] and r["exhaustive"])
            )
        f = r["failure"]
        if f is not None and (out["failure"] is None or f["size"] < out["failure"]["size"]):
            out["failure"] = f
    return out


def write_evidence(mod, prop, tier, seed, merged, wall, violations, known_lines):
    cov = {
        "evaluations": merged["evaluations"],
        "distinct_nontrivial": len(merged["nontrivial"]),
        "rule": mod.RULE,
        "samples": merged["samples"] or ["(no non-trivial case generated)"],
        "classes": dict(sorted(merged["classes"].items())),
        "abstained": dict(merged["abstained"]),
        "excluded_known": dict(merged["excluded_known"]),
        "known_findings_reproduced": known_lines,
    }
    cov.update(merged["extra"])
    if merged["exhaustive"] is not None:
        cov["exhaustive"] = bool(merged["exhaustive"])
    ev = {
        "property_id": prop,
        "tier": tier,
        "seed": seed,
        "level": "exploration",
        "coverage": cov,
        "assumptions": getattr(mod, "ASSUMPTIONS", [])
        + ["harness reference models and spec->UP builder", "CPython, Hypothesis"],
        "wall_s": round(wall, 2),
        "violations": violations,
    }
    os.makedirs(os.path.join(OUT_ROOT, "evidence"), exist_ok=True)
    with open(os.path.join(OUT_ROOT, "evidence", f"{prop}.json"), "w") as f:
        f.write(json.dumps(ev, indent=1, default=jdefault))


def replay_known(mod, prop, tier, seed) -> List[str]:
    """Replays every open known finding; returns the KNOWN-FINDING lines."""
    lines = []
    for k in load_known():
        if k.get("property") != prop or k.get("status", "open") != "open":
            continue
        ctx = Ctx(prop, tier, seed, 0, 1)
        ctx.case_timeout = getattr(mod, "CASE_TIMEOUT_S", ctx.case_timeout)
        ctx.known_sigs = set()
        case = k["case"]
        try:
            ctx.timed(mod.replay, ctx, case)
        except CaseTimeout:
            if k["signature"].startswith("hang"):
                lines.append(f"KNOWN-FINDING: property={prop} {k['what']}")
            else:
                raise Violation("hang", f"replaying the known finding {k['signature']} used more than {ctx.case_timeout}s of CPU time", case)
        except Violation as v:
            if v.sig == k["signature"]:
                lines.append(f"KNOWN-FINDING: property={prop} {k['what']}")
            else:
                # same input now fails differently: report as a new violation
                raise
        except Abstain:
            pass
    return lines


def replay_regressions(mod, prop, tier, seed):
    """Replays committed regression inputs (replays/<ID>/*.json). A failure whose
    signature is not an open known finding is a violation."""
    d = os.path.join(ROOT, "replays", prop)
    if not os.path.isdir(d):
        return None, 0
    n = 0
    known = {k["signature"] for k in load_known() if k.get("property") == prop and k.get("status", "open") == "open"}
    for fn in sorted(os.listdir(d)):
        if not fn.endswith(".json"):
            continue
        with open(os.path.join(d, fn)) as f:
            rep = json.load(f)
        ctx = Ctx(prop, tier, seed, 0, 1)
        ctx.known_sigs = set()
        n += 1
        try:
            mod.replay(ctx, rep["case"])
        except Abstain:
            pass
        except Violation as v:
            if v.sig in known:
                continue
            return {"size": 0, "sig": v.sig, "message": v.message + f" (regression input {fn})", "case": rep["case"], "extra": v.extra}, n
    return None, n


def save_replay(prop, seed, failure) -> str:
    d = os.path.join(OUT_ROOT, "out", "replays", prop)
    os.makedirs(d, exist_ok=True)
    name = f"{failure['sig'].replace('/', '_').replace(' ', '_')[:60]}-{case_hash(failure['case'])}.json"
    path = os.path.join(d, name)
    with open(path, "w") as f:
        json.dump(
            {
                "property": prop,
                "seed": seed,
                "signature": failure["sig"],
                "oracle_message": failure["message"],
                "case": failure["case"],
                "extra": failure.get("extra"),
            },
            f,
            indent=1,
            default=jdefault,
        )
    return os.path.relpath(path, ROOT) if OUT_ROOT == ROOT else path


def main_run(prop: str, tier: str, seed: int, replay_path: Optional[str] = None, nshards_override: Optional[int] = None) -> int:
    import importlib

    t0 = time.time()
    modname = f"checks.{prop.lower()}"
    try:
        mod = importlib.import_module(modname)
    except Exception:
        traceback.print_exc()
        print(f"HARNESS-ERROR property={prop} cannot import check module")
        return 2

    if replay_path is not None:
        with open(replay_path) as f:
            rep = json.load(f)
        ctx = Ctx(prop, tier, seed, 0, 1)
        ctx.case_timeout = getattr(mod, "CASE_TIMEOUT_S", ctx.case_timeout)
        ctx.known_sigs = set()
        try:
            ctx.timed(mod.replay, ctx, rep["case"])
        except CaseTimeout:
            if not getattr(mod, "HANG_IS_VIOLATION", False):
                print(f"replay: inconclusive (CPU budget of {ctx.case_timeout}s exceeded)")
                return 0
            print(f"replay: no result within {ctx.case_timeout}s of CPU time (non-termination)")
            print(f"VIOLATION property={prop} replay={replay_path}")
            return 1
        except Violation as v:
            print(f"replay: {v}")
            print(f"VIOLATION property={prop} replay={replay_path}")
            return 1
        except Abstain as a:
            print(f"replay: abstained ({a.reason})")
            return 0
        print("replay: property holds on this input")
        return 0

    try:
        known_lines = replay_known(mod, prop, tier, seed)
        reg_failure, nreg = replay_regressions(mod, prop, tier, seed)
    except Violation as v:
        reg_failure, nreg, known_lines = (
            {"size": 0, "sig": v.sig, "message": v.message, "case": v.case, "extra": v.extra},
            0,
            [],
        )
    except Exception:
        traceback.print_exc()
        print(f"HARNESS-ERROR property={prop} while replaying known findings / regressions")
        return 2
    for l in known_lines:
        print(l)

    shards = getattr(mod, "SHARDS", {"quick": 8, "thorough": 16})
    n = nshards_override or shards[tier]
    n = max(1, min(n, 16))
    jobs = [(modname, prop, tier, seed, i, n) for i in range(n)]
    if reg_failure is not None:
        results = []
    elif n == 1 or os.environ.get("VERIF_INPROC"):
        results = [_worker(j) for j in jobs]
    else:
        import multiprocessing as mp

        with mp.get_context("fork").Pool(min(n, 16)) as pool:
            results = pool.map(_worker, jobs, chunksize=1)
    merged = merge(results)
    merged["extra"]["regression_inputs_replayed"] = nreg
    if reg_failure is not None:
        merged["failure"] = reg_failure
        merged["evaluations"] = max(1, nreg)
    wall = time.time() - t0
    if merged["harness_errors"]:
        for h in merged["harness_errors"][:3]:
            print(h, file=sys.stderr)
        print(f"HARNESS-ERROR property={prop} ({len(merged['harness_errors'])} shard(s) failed)")
        return 2
    failure = merged["failure"]
    write_evidence(mod, prop, tier, seed, merged, wall, 1 if failure else 0, known_lines)
    ev = merged
    print(
        f"{prop} tier={tier} seed={seed} evaluations={ev['evaluations']} "
        f"distinct_nontrivial={len(ev['nontrivial'])} abstained={sum(ev['abstained'].values())} "
        f"excluded_known={sum(ev['excluded_known'].values())} wall={wall:.1f}s"
    )
    if failure:
        path = save_replay(prop, seed, failure)
        print(f"  signature: {failure['sig']}")
        print(f"  message  : {failure['message'][:2000]}")
        print(f"VIOLATION property={prop} replay={path}")
        return 1
    return 0
